module gosym

go 1.23

require (
	github.com/klauspost/compress v1.16.7
	github.com/pckhoi/meow v0.0.0-20211009023351-e1fff1d3c870
	golang.org/x/tools v0.29.0
)

require (
	golang.org/x/mod v0.22.0 // indirect
	golang.org/x/sync v0.10.0 // indirect
)
