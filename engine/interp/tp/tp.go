package tp

import "go/types"

func MustDeref(t types.Type) types.Type {
	if p, ok := t.Underlying().(*types.Pointer); ok {
		return p.Elem()
	}
	panic("not pointer: " + t.String())
}

func CoreType(t types.Type) types.Type { return t.Underlying() }
