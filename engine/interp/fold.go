package interp

// constant folding for the term constructor (spike)

func allConst(args []*Term) bool {
	for _, a := range args {
		if a.op != "const" {
			return false
		}
	}
	return true
}

func sext64(v uint64, w int) int64 {
	if w < 64 && v&(1<<(w-1)) != 0 {
		v |= ^mask(w)
	}
	return int64(v)
}

// fold returns (value, true) if op over constant args can be evaluated.
func fold(op string, w int, args []*Term) (uint64, bool) {
	if op == "ite" && args[0].op == "const" {
		return 0, false // handled by caller (returns branch term)
	}
	if !allConst(args) {
		return 0, false
	}
	a := args[0].val
	var b uint64
	aw := args[0].width
	if len(args) > 1 {
		b = args[1].val
	}
	bool2 := func(x bool) (uint64, bool) {
		if x {
			return 1, true
		}
		return 0, true
	}
	switch op {
	case "bvadd":
		return (a + b) & mask(w), true
	case "bvsub":
		return (a - b) & mask(w), true
	case "bvmul":
		return (a * b) & mask(w), true
	case "bvand":
		return a & b, true
	case "bvor":
		return a | b, true
	case "bvxor":
		return a ^ b, true
	case "bvnot":
		return ^a & mask(w), true
	case "bvneg":
		return (-a) & mask(w), true
	case "bvshl":
		if b >= uint64(w) {
			return 0, true
		}
		return (a << b) & mask(w), true
	case "bvlshr":
		if b >= uint64(w) {
			return 0, true
		}
		return a >> b, true
	case "bvult":
		return bool2(a < b)
	case "bvule":
		return bool2(a <= b)
	case "bvugt":
		return bool2(a > b)
	case "bvuge":
		return bool2(a >= b)
	case "bvslt":
		return bool2(sext64(a, aw) < sext64(b, aw))
	case "bvsle":
		return bool2(sext64(a, aw) <= sext64(b, aw))
	case "bvsgt":
		return bool2(sext64(a, aw) > sext64(b, aw))
	case "bvsge":
		return bool2(sext64(a, aw) >= sext64(b, aw))
	case "=":
		return bool2(a == b)
	case "not":
		return bool2(a == 0)
	case "and":
		return bool2(a != 0 && b != 0)
	case "or":
		return bool2(a != 0 || b != 0)
	}
	return 0, false
}
