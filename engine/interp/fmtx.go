package interp

import (
	"fmt"
	"go/types"
)

type wrapErr struct {
	msg string
	err value // wrapped iface
}

func nativeArg(fr *frame, v value) interface{} {
	switch x := v.(type) {
	case bstr:
		return "<symbolic-length string>"
	case bseg:
		return "<symbolic-length bytes>"
	case iface:
		if x.t == nil {
			return nil
		}
		// error?
		// messages with symbolic bytes are formatted with the bytes of the current model
		// (formatting is not the subject of any check)
		str := func(v value) string {
			if ss, ok := v.(symStr); ok {
				return concStr(fr.i.s, ss)
			}
			return v.(string)
		}
		if m := findMethod(fr.i, x.t, "Error"); m != nil {
			return fmt.Errorf("%s", str(call(fr.i, fr, 0, m, []value{x.v})))
		}
		if m := findMethod(fr.i, x.t, "String"); m != nil {
			return str(call(fr.i, fr, 0, m, []value{x.v}))
		}
		return nativeArg(fr, x.v)
	case []value:
		if !anySym(x) {
			ok := true
			for _, e := range x {
				if _, isb := e.(byte); !isb {
					ok = false
				}
			}
			if ok {
				return toBytes(x)
			}
		}
		return toString(v)
	case symStr:
		return concStr(fr.i.s, x)
	case string, bool, int, int8, int16, int32, int64, uint, uint8, uint16, uint32, uint64, float64:
		return x
	}
	return toString(v)
}

func findMethod(i *interpreter, t types.Type, name string) value {
	ms := i.prog.MethodSets.MethodSet(t)
	for k := 0; k < ms.Len(); k++ {
		sel := ms.At(k)
		if sel.Obj().Name() == name {
			if f := i.prog.MethodValue(sel); f != nil {
				return f
			}
		}
	}
	return nil
}

func init() {
	sprintf := func(fr *frame, a []value) string {
		args := a[1].([]value)
		na := make([]interface{}, len(args))
		for i, x := range args {
			na[i] = nativeArg(fr, x)
		}
		return fmt.Sprintf(a[0].(string), na...)
	}
	externals["fmt.Sprintf"] = func(fr *frame, a []value) value { return sprintf(fr, a) }
	externals["fmt.Errorf"] = func(fr *frame, a []value) value {
		format := a[0].(string)
		args := a[1].([]value)
		msg := sprintf(fr, []value{replaceW(format), a[1]})
		// %w: wrap the operand it applies to (first %w only, like a single-wrap fmt.wrapError)
		if k := wIndex(format); k >= 0 && k < len(args) {
			if w, ok := args[k].(iface); ok && w.t != nil {
				return mkWrapError(fr, msg, w)
			}
		}
		return mkError(fr, msg)
	}
}

// wIndex returns the operand index of the first %w verb, or -1.
func wIndex(format string) int {
	n := 0
	for i := 0; i < len(format); i++ {
		if format[i] != '%' {
			continue
		}
		i++
		for i < len(format) && (format[i] == '+' || format[i] == '-' || format[i] == '#' || format[i] == ' ' || format[i] == '0' || format[i] == '.' || (format[i] >= '0' && format[i] <= '9')) {
			i++
		}
		if i >= len(format) {
			break
		}
		if format[i] == '%' {
			continue
		}
		if format[i] == 'w' {
			return n
		}
		n++
	}
	return -1
}

func mkWrapError(fr *frame, msg string, wrapped iface) value {
	pkg := fr.i.prog.ImportedPackage("fmt")
	t := pkg.Type("wrapError").Object().Type()
	var v value = structure{msg, wrapped}
	return iface{t: types.NewPointer(t), v: &v}
}

func ifaceEq(a, b iface) (eq bool) {
	defer func() {
		if recover() != nil {
			eq = false
		}
	}()
	if a.t == nil || b.t == nil {
		return a.t == nil && b.t == nil
	}
	if !types.Identical(a.t, b.t) {
		return false
	}
	return equals(a.t, a.v, b.v)
}

func errUnwrap(fr *frame, e iface) []iface {
	if e.t == nil {
		return nil
	}
	m := findMethod(fr.i, e.t, "Unwrap")
	if m == nil {
		return nil
	}
	r := call(fr.i, fr, 0, m, []value{e.v})
	switch x := r.(type) {
	case iface:
		if x.t == nil {
			return nil
		}
		return []iface{x}
	case []value:
		var out []iface
		for _, y := range x {
			if yi, ok := y.(iface); ok && yi.t != nil {
				out = append(out, yi)
			}
		}
		return out
	}
	return nil
}

func errIs(fr *frame, e, target iface) bool {
	if e.t == nil || target.t == nil {
		return e.t == nil && target.t == nil
	}
	if ifaceEq(e, target) {
		return true
	}
	if m := findMethod(fr.i, e.t, "Is"); m != nil {
		if b, ok := call(fr.i, fr, 0, m, []value{e.v, target}).(bool); ok && b {
			return true
		}
	}
	for _, u := range errUnwrap(fr, e) {
		if errIs(fr, u, target) {
			return true
		}
	}
	return false
}

func init() {
	externals["errors.Is"] = func(fr *frame, a []value) value { return errIs(fr, a[0].(iface), a[1].(iface)) }
	externals["errors.Unwrap"] = func(fr *frame, a []value) value {
		us := errUnwrap(fr, a[0].(iface))
		if len(us) == 1 {
			return us[0]
		}
		return iface{}
	}
	externals["errors.New"] = func(fr *frame, a []value) value { return mkError(fr, a[0].(string)) }
}

func replaceW(s string) string {
	b := []byte(s)
	for i := 0; i+1 < len(b); i++ {
		if b[i] == '%' && b[i+1] == 'w' {
			b[i+1] = 'v'
		}
	}
	return string(b)
}

func init() {
	externals["time.Now"] = func(fr *frame, a []value) value {
		return structure{uint64(0), int64(1600000000 + 62135596800), (*value)(nil)}
	}
	externals["time.Since"] = func(fr *frame, a []value) value { return int64(0) }
}

func init() {
	externals["internal/stringslite.Clone"] = func(fr *frame, a []value) value { return a[0] }
	externals["strings.Clone"] = func(fr *frame, a []value) value { return a[0] }
}

func init() {
	externals["time.runtimeNano"] = func(fr *frame, a []value) value { return int64(1) }
	externals["time.now"] = func(fr *frame, a []value) value { return tuple{int64(1600000000), int32(0), int64(2)} }
	delete(externals, "time.Now")
	delete(externals, "time.Since")
}


func init() {
	ld := func(fr *frame, a []value) value { return *(a[0].(*value)) }
	st := func(fr *frame, a []value) value { *(a[0].(*value)) = a[1]; return nil }
	for _, t := range []string{"Uint32", "Int32", "Uint64", "Int64", "Uintptr", "Pointer"} {
		externals["sync/atomic.Load"+t] = ld
		externals["sync/atomic.Store"+t] = st
	}
	externals["sync/atomic.CompareAndSwapUint32"] = func(fr *frame, a []value) value {
		p := a[0].(*value)
		if *p == a[1] {
			*p = a[2]
			return true
		}
		return false
	}
	externals["sync/atomic.CompareAndSwapInt32"] = externals["sync/atomic.CompareAndSwapUint32"]
}

func init() {
	externals["sync/atomic.AddInt32"] = func(fr *frame, a []value) value {
		p := a[0].(*value)
		*p = (*p).(int32) + a[1].(int32)
		return *p
	}
	externals["sync/atomic.AddInt64"] = func(fr *frame, a []value) value {
		p := a[0].(*value)
		*p = (*p).(int64) + a[1].(int64)
		return *p
	}
	externals["sync/atomic.AddUint32"] = func(fr *frame, a []value) value {
		p := a[0].(*value)
		*p = (*p).(uint32) + a[1].(uint32)
		return *p
	}
}

func init() {
	externals["time.initLocal"] = func(fr *frame, a []value) value { return nil }
}
