package interp

import (
	"fmt"
	"go/types"
)

type wrapErr struct {
	msg string
	err value // wrapped iface
}

func nativeArg(fr *frame, v value) interface{} {
	switch x := v.(type) {
	case bstr:
		return "<symbolic-length string>"
	case bseg:
		return "<symbolic-length bytes>"
	case iface:
		if x.t == nil {
			return nil
		}
		// error?
		if m := findMethod(fr.i, x.t, "Error"); m != nil {
			return fmt.Errorf("%s", call(fr.i, fr, 0, m, []value{x.v}).(string))
		}
		if m := findMethod(fr.i, x.t, "String"); m != nil {
			return call(fr.i, fr, 0, m, []value{x.v}).(string)
		}
		return nativeArg(fr, x.v)
	case []value:
		if !anySym(x) {
			ok := true
			for _, e := range x {
				if _, isb := e.(byte); !isb {
					ok = false
				}
			}
			if ok {
				return toBytes(x)
			}
		}
		return toString(v)
	case string, bool, int, int8, int16, int32, int64, uint, uint8, uint16, uint32, uint64, float64:
		return x
	}
	return toString(v)
}

func findMethod(i *interpreter, t types.Type, name string) value {
	ms := i.prog.MethodSets.MethodSet(t)
	for k := 0; k < ms.Len(); k++ {
		sel := ms.At(k)
		if sel.Obj().Name() == name {
			if f := i.prog.MethodValue(sel); f != nil {
				return f
			}
		}
	}
	return nil
}

func init() {
	sprintf := func(fr *frame, a []value) string {
		args := a[1].([]value)
		na := make([]interface{}, len(args))
		for i, x := range args {
			na[i] = nativeArg(fr, x)
		}
		return fmt.Sprintf(a[0].(string), na...)
	}
	externals["fmt.Sprintf"] = func(fr *frame, a []value) value { return sprintf(fr, a) }
	externals["fmt.Errorf"] = func(fr *frame, a []value) value {
		// %w -> %v for message; wrapping handled crudely: keep first error arg
		format := a[0].(string)
		msg := sprintf(fr, []value{replaceW(format), a[1]})
		return mkError(fr, msg)
	}
}

func replaceW(s string) string {
	b := []byte(s)
	for i := 0; i+1 < len(b); i++ {
		if b[i] == '%' && b[i+1] == 'w' {
			b[i+1] = 'v'
		}
	}
	return string(b)
}

func init() {
	externals["time.Now"] = func(fr *frame, a []value) value {
		return structure{uint64(0), int64(1600000000 + 62135596800), (*value)(nil)}
	}
	externals["time.Since"] = func(fr *frame, a []value) value { return int64(0) }
}

func init() {
	externals["internal/stringslite.Clone"] = func(fr *frame, a []value) value { return a[0] }
	externals["strings.Clone"] = func(fr *frame, a []value) value { return a[0] }
}

func init() {
	externals["time.runtimeNano"] = func(fr *frame, a []value) value { return int64(1) }
	externals["time.now"] = func(fr *frame, a []value) value { return tuple{int64(1600000000), int32(0), int64(2)} }
	delete(externals, "time.Now")
	delete(externals, "time.Since")
}

var onceDone = map[*value]bool{}

func init() {
	ld := func(fr *frame, a []value) value { return *(a[0].(*value)) }
	st := func(fr *frame, a []value) value { *(a[0].(*value)) = a[1]; return nil }
	for _, t := range []string{"Uint32", "Int32", "Uint64", "Int64", "Uintptr", "Pointer"} {
		externals["sync/atomic.Load"+t] = ld
		externals["sync/atomic.Store"+t] = st
	}
	externals["sync/atomic.CompareAndSwapUint32"] = func(fr *frame, a []value) value {
		p := a[0].(*value)
		if *p == a[1] {
			*p = a[2]
			return true
		}
		return false
	}
	externals["sync/atomic.CompareAndSwapInt32"] = externals["sync/atomic.CompareAndSwapUint32"]
	externals["(*sync.Once).Do"] = func(fr *frame, a []value) value {
		p := a[0].(*value)
		if onceDone[p] {
			return nil
		}
		onceDone[p] = true
		call(fr.i, fr, 0, a[1], nil)
		return nil
	}
}

func init() {
	externals["sync/atomic.AddInt32"] = func(fr *frame, a []value) value {
		p := a[0].(*value)
		*p = (*p).(int32) + a[1].(int32)
		return *p
	}
	externals["sync/atomic.AddInt64"] = func(fr *frame, a []value) value {
		p := a[0].(*value)
		*p = (*p).(int64) + a[1].(int64)
		return *p
	}
	externals["sync/atomic.AddUint32"] = func(fr *frame, a []value) value {
		p := a[0].(*value)
		*p = (*p).(uint32) + a[1].(uint32)
		return *p
	}
}

func init() {
	externals["time.initLocal"] = func(fr *frame, a []value) value { return nil }
}
