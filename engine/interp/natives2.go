package interp

// Symbolic-aware replacements for assembly-backed stdlib helpers.

import (
	"golang.org/x/tools/go/ssa"
	"go/token"
	"go/types"
)

func bytesOf(v value) []value {
	switch x := v.(type) {
	case []value:
		return x
	case string, symStr:
		return strBytes(x)
	case nil:
		return nil
	}
	panic(unsupported{"bytesOf: unexpected operand"})
}

// symEqByte returns a bool value (possibly symbolic) for a == b.
func eqByte(a, b value) value {
	if !isSym(a) && !isSym(b) {
		return a.(byte) == b.(byte)
	}
	return symBinop(token.EQL, types.Typ[types.Uint8], a, b)
}

func (i *interpreter) decide(c value) bool {
	if sc, ok := c.(sym); ok {
		return i.s.branch(sc.t)
	}
	return c.(bool)
}

func init() {
	externals["internal/bytealg.MakeNoZero"] = func(fr *frame, a []value) value {
		n := int(asInt64(a[0]))
		sl := make([]value, n)
		for k := range sl {
			sl[k] = byte(0)
		}
		return sl
	}
	indexByte := func(fr *frame, a []value) value {
		b := bytesOf(a[0])
		for k, e := range b {
			if fr.i.decide(eqByte(e, a[1])) {
				return k
			}
		}
		return -1
	}
	externals["internal/bytealg.IndexByte"] = indexByte
	externals["internal/bytealg.IndexByteString"] = indexByte
	externals["bytes.IndexByte"] = indexByte
	externals["strings.IndexByte"] = indexByte
	lastIndexByte := func(fr *frame, a []value) value {
		b := bytesOf(a[0])
		for k := len(b) - 1; k >= 0; k-- {
			if fr.i.decide(eqByte(b[k], a[1])) {
				return k
			}
		}
		return -1
	}
	externals["internal/bytealg.LastIndexByte"] = lastIndexByte
	externals["internal/bytealg.LastIndexByteString"] = lastIndexByte
	count := func(fr *frame, a []value) value {
		b := bytesOf(a[0])
		n := 0
		for _, e := range b {
			if fr.i.decide(eqByte(e, a[1])) {
				n++
			}
		}
		return n
	}
	externals["internal/bytealg.Count"] = count
	externals["internal/bytealg.CountString"] = count
	compare := func(fr *frame, a []value) value {
		x, y := bytesOf(a[0]), bytesOf(a[1])
		sx, sy := mkStr(x), mkStr(y)
		if fr.i.decide(strCmp(token.LSS, sx, sy)) {
			return -1
		}
		if fr.i.decide(strCmp(token.EQL, sx, sy)) {
			return 0
		}
		return 1
	}
	externals["internal/bytealg.Compare"] = compare
	externals["bytes.Compare"] = compare
	externals["internal/bytealg.CompareString"] = compare
	equal := func(fr *frame, a []value) value {
		return strCmp(token.EQL, mkStr(bytesOf(a[0])), mkStr(bytesOf(a[1])))
	}
	externals["bytes.Equal"] = equal
	externals["internal/bytealg.Equal"] = equal
	// substring search: straightforward scan with symbolic comparisons
	index := func(fr *frame, a []value) value {
		h, n := bytesOf(a[0]), bytesOf(a[1])
		for k := 0; k+len(n) <= len(h); k++ {
			if fr.i.decide(strCmp(token.EQL, mkStr(h[k:k+len(n)]), mkStr(n))) {
				return k
			}
		}
		return -1
	}
	externals["internal/bytealg.Index"] = index
	externals["internal/bytealg.IndexString"] = index
	externals["strings.Index"] = index
	externals["bytes.Index"] = index
	externals["internal/bytealg.Cutover"] = func(fr *frame, a []value) value { return 1 << 30 }
	id := func(fr *frame, a []value) value { return a[0] }
	externals["internal/stringslite.Clone"] = id
	externals["strings.Clone"] = id
	externals["unique.Make[string]"] = id
}

// strCmp compares two string-like values (string or symStr).
func strCmp(op token.Token, x, y value) value {
	xs, okx := x.(string)
	ys, oky := y.(string)
	if okx && oky {
		switch op {
		case token.EQL:
			return xs == ys
		case token.LSS:
			return xs < ys
		}
		panic("strCmp op")
	}
	return symStrBinop(op, x, y)
}

func init() {
	// sync/atomic.Value as a plain cell (only one interpreted goroutine runs at a time)
	externals["(*sync/atomic.Value).Load"] = func(fr *frame, a []value) value {
		p := a[0].(*value)
		return (*p).(structure)[0]
	}
	externals["(*sync/atomic.Value).Store"] = func(fr *frame, a []value) value {
		p := a[0].(*value)
		(*p).(structure)[0] = a[1]
		fr.i.sc.bump()
		return nil
	}
	externals["(*sync/atomic.Value).CompareAndSwap"] = func(fr *frame, a []value) value {
		p := a[0].(*value)
		cur := (*p).(structure)[0].(iface)
		old := a[1].(iface)
		if ifaceEq(cur, old) {
			(*p).(structure)[0] = a[2]
			fr.i.sc.bump()
			return true
		}
		return false
	}
	externals["(*sync/atomic.Value).Swap"] = func(fr *frame, a []value) value {
		p := a[0].(*value)
		old := (*p).(structure)[0]
		(*p).(structure)[0] = a[1]
		fr.i.sc.bump()
		return old
	}
}

func init() {
	// pkg/mem shells out (os/exec) to ask the OS for memory sizes: nondeterministic
	// stubs returning any size >= 1 MiB (documented contract: some plausible amount).
	memStub := func(name string) externalFn {
		return func(fr *frame, a []value) value {
			if fr.i.cfg.ConcreteMem {
				return tuple{uint64(1 << 33), iface{}}
			}
			v := fr.i.nondet(name, types.Uint64)
			if sv, ok := v.(sym); ok {
				s := fr.i.s
				s.model[sv.t.id] = 1 << 33
				s.assert(s.mk("bvuge", 0, sv.t, s.constT(64, 1<<20)))
				s.assert(s.mk("bvule", 0, sv.t, s.constT(64, 1<<46)))
			} else if v.(uint64) < 1<<20 {
				v = uint64(1 << 33)
			}
			return tuple{v, iface{}}
		}
	}
	externals["github.com/wrgl/wrgl/pkg/mem.GetTotalMem"] = memStub("mem.total")
	externals["github.com/wrgl/wrgl/pkg/mem.GetAvailMem"] = memStub("mem.avail")
}

func init() {
	externals["internal/abi.NoEscape"] = func(fr *frame, a []value) value { return a[0] }
	externals["(*strings.Builder).copyCheck"] = func(fr *frame, a []value) value { return nil }
	externals["(*strings.Builder).String"] = func(fr *frame, a []value) value {
		p := a[0].(*value)
		buf, _ := (*p).(structure)[1].([]value)
		return mkStr(buf)
	}
}

func init() {
	nop := func(fr *frame, a []value) value { return nil }
	for _, m := range []string{"Printf", "Println", "Print", "PrintErr", "PrintErrf", "PrintErrln"} {
		externals["(*github.com/spf13/cobra.Command)."+m] = nop
	}
	// sync.Pool without per-P caches: Get calls New, Put drops the value
	externals["(*sync.Pool).Put"] = nop
	externals["(*sync.Pool).Get"] = func(fr *frame, a []value) value {
		p := a[0].(*value)
		st := (*p).(structure)
		pool := fr.i.prog.ImportedPackage("sync").Type("Pool").Object().Type().Underlying().(*types.Struct)
		for k := 0; k < pool.NumFields(); k++ {
			if pool.Field(k).Name() == "New" {
				if st[k] == nil {
					return iface{}
				}
				if fn, ok := st[k].(*ssa.Function); ok && fn == nil {
					return iface{}
				}
				return call(fr.i, fr, 0, st[k], nil)
			}
		}
		return iface{}
	}
}
