package interp

import (
	"github.com/klauspost/compress/s2"
	"github.com/pckhoi/meow"
)

type nativeDigest struct{ d *meow.Digest }

func toBytes(v value) []byte {
	x := v.([]value)
	b := make([]byte, len(x))
	for i := range x {
		b[i] = x[i].(byte)
	}
	return b
}

func fromBytes(b []byte) []value {
	r := make([]value, len(b))
	for i := range b {
		r[i] = b[i]
	}
	return r
}

func init() {
	externals["github.com/pckhoi/meow.Checksum"] = func(fr *frame, a []value) value {
		sum := meow.Checksum(asUint64(a[0]), toBytes(a[1]))
		arr := make(array, 16)
		for i := range arr {
			arr[i] = sum[i]
		}
		return arr
	}
	externals["github.com/pckhoi/meow.New"] = func(fr *frame, a []value) value {
		return &nativeDigest{meow.New(asUint64(a[0]))}
	}
	externals["(*github.com/pckhoi/meow.Digest).Reset"] = func(fr *frame, a []value) value {
		a[0].(*nativeDigest).d.Reset()
		return nil
	}
	externals["(*github.com/pckhoi/meow.Digest).Write"] = func(fr *frame, a []value) value {
		n, _ := a[0].(*nativeDigest).d.Write(toBytes(a[1]))
		return tuple{n, iface{}}
	}
	externals["(*github.com/pckhoi/meow.Digest).Sum"] = func(fr *frame, a []value) value {
		var in []byte
		if a[1].([]value) != nil {
			in = toBytes(a[1])
		}
		return fromBytes(a[0].(*nativeDigest).d.Sum(in))
	}
	externals["(*github.com/pckhoi/meow.Digest).SumTo"] = func(fr *frame, a []value) value {
		dst := a[1].([]value)
		b := make([]byte, len(dst))
		a[0].(*nativeDigest).d.SumTo(b)
		for i := range b {
			dst[i] = b[i]
		}
		return nil
	}
	externals["github.com/klauspost/compress/s2.EncodeBetter"] = func(fr *frame, a []value) value {
		src := a[1].([]value)
		if anySym(src) {
			c := make([]value, len(src)+1)
			c[0] = byte(0xEE) // tag: identity-coded
			copy(c[1:], src)
			return c
		}
		return fromBytes(s2.EncodeBetter(nil, toBytes(src)))
	}
	externals["github.com/klauspost/compress/s2.Decode"] = func(fr *frame, a []value) value {
		src := a[1].([]value)
		if anySym(src) {
			c := make([]value, len(src)-1)
			copy(c, src[1:])
			return tuple{c, iface{}}
		}
		out, err := s2.Decode(nil, toBytes(src))
		if err != nil {
			return tuple{[]value(nil), mkError(fr, err.Error())}
		}
		return tuple{fromBytes(out), iface{}}
	}
}
