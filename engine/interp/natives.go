package interp

import (
	"fmt"
	"go/types"

	"github.com/klauspost/compress/s2"
	"github.com/pckhoi/meow"
)


func toBytes(v value) []byte {
	x := v.([]value)
	b := make([]byte, len(x))
	for i := range x {
		b[i] = x[i].(byte)
	}
	return b
}

func fromBytes(b []byte) []value {
	r := make([]value, len(b))
	for i := range b {
		r[i] = b[i]
	}
	return r
}

// ---- meow hash: native on concrete input, injective uninterpreted function on symbolic input ----

type hashCall struct {
	seed uint64
	data []value // bytes (concrete or symbolic)
	out  []value // 16 bytes
}

// symHash returns the 16-byte checksum of data. Concrete data is hashed natively.
// Symbolic data gets 16 fresh symbolic bytes constrained to be an injective
// function of the input with respect to every other hash computed on this path:
// equal inputs <=> equal outputs (assumption: meow does not collide).
func (i *interpreter) symHash(seed uint64, data []value) []value {
	s := i.s
	var out []value
	if !anySym(data) {
		// concrete input: the real hash. (Symbolic outputs live in a tagged subspace, see
		// below, so they can never equal a real hash unless its last 8 bytes are the tag.)
		sum := meow.Checksum(seed, toBytes(data))
		out = fromBytes(sum[:])
		if i.cfg.HashIDs {
			// remember concrete inputs too: a later symbolic input may equal one of them
			for _, h := range i.sc.hashes {
				if h.seed == seed && len(h.data) == len(data) && !anySym(h.data) && string(toBytes(h.data)) == string(toBytes(data)) {
					return out
				}
			}
			cp := make([]value, len(data))
			copy(cp, data)
			i.sc.hashes = append(i.sc.hashes, hashCall{seed, cp, out})
		}
		return out
	}
	if i.cfg.HashIDs {
		// "ids" mode: the hash of symbolic input is a concrete identifier; equality with
		// every earlier input is decided by forking, so equal inputs share one identifier
		// and different inputs get different ones (one fixed injective function instead
		// of all of them: the relative ORDER of hashes is not explored in this mode).
		for _, h := range i.sc.hashes {
			if h.seed != seed || len(h.data) != len(data) {
				continue
			}
			eq := s.constT(0, 1)
			for k := range data {
				eq = s.and(eq, s.mk("=", 0, s.byteT(data[k]), s.byteT(h.data[k])))
			}
			if s.branch(eq) {
				return h.out
			}
		}
		sum := meow.Checksum(seed, []byte(fmt.Sprintf("gosym-hash-id-%d-%d", len(i.sc.hashes), len(data))))
		out = fromBytes(sum[:])
		cp := make([]value, len(data))
		copy(cp, data)
		i.sc.hashes = append(i.sc.hashes, hashCall{seed, cp, out})
		return out
	}
	// symbolic input: 8 free symbolic bytes followed by a constant 8-byte tag. The free
	// leading bytes leave the order relative to every other hash open; the tag makes the
	// value differ from every real hash without pairwise constraints.
	out = make([]value, 16)
	for k := 0; k < 8; k++ {
		out[k] = i.nondet("meow", types.Uint8)
	}
	for k, c := range []byte("gosymUF!") {
		out[8+k] = c
	}
	cp := make([]value, len(data))
	copy(cp, data)
	for _, h := range i.sc.hashes {
		var eqIn *Term
		if h.seed != seed || len(h.data) != len(data) {
			eqIn = s.constT(0, 0)
		} else {
			eqIn = s.constT(0, 1)
			for k := range data {
				eqIn = s.and(eqIn, s.mk("=", 0, s.byteT(data[k]), s.byteT(h.data[k])))
			}
		}
		eqOut := s.constT(0, 1)
		for k := 0; k < 8; k++ {
			eqOut = s.and(eqOut, s.mk("=", 0, s.byteT(out[k]), s.byteT(h.out[k])))
		}
		s.assert(s.mk("=", 0, eqIn, eqOut))
	}
	i.sc.hashes = append(i.sc.hashes, hashCall{seed, cp, out})
	if s.vector == nil && !s.needModel() {
		panic(pathInfeasible{})
	}
	return out
}

type nativeDigest struct {
	seed uint64
	data []value
}

func init() {
	externals["github.com/pckhoi/meow.Checksum"] = func(fr *frame, a []value) value {
		out := fr.i.symHash(asUint64(a[0]), a[1].([]value))
		arr := make(array, 16)
		copy(arr, out)
		return arr
	}
	externals["github.com/pckhoi/meow.New"] = func(fr *frame, a []value) value {
		return &nativeDigest{seed: asUint64(a[0])}
	}
	externals["(*github.com/pckhoi/meow.Digest).Reset"] = func(fr *frame, a []value) value {
		a[0].(*nativeDigest).data = nil
		return nil
	}
	externals["(*github.com/pckhoi/meow.Digest).Write"] = func(fr *frame, a []value) value {
		d := a[0].(*nativeDigest)
		b := a[1].([]value)
		d.data = append(d.data, b...)
		return tuple{len(b), iface{}}
	}
	externals["(*github.com/pckhoi/meow.Digest).Sum"] = func(fr *frame, a []value) value {
		d := a[0].(*nativeDigest)
		out := fr.i.symHash(d.seed, d.data)
		var in []value
		if x, ok := a[1].([]value); ok {
			in = x
		}
		return append(append([]value{}, in...), out...)
	}
	externals["(*github.com/pckhoi/meow.Digest).SumTo"] = func(fr *frame, a []value) value {
		d := a[0].(*nativeDigest)
		out := fr.i.symHash(d.seed, d.data)
		dst := a[1].([]value)
		copy(dst, out)
		return nil
	}
	externals["(*github.com/pckhoi/meow.Digest).Size"] = func(fr *frame, a []value) value { return 16 }
	externals["(*github.com/pckhoi/meow.Digest).BlockSize"] = func(fr *frame, a []value) value { return 256 }
	externals["github.com/klauspost/compress/s2.EncodeBetter"] = func(fr *frame, a []value) value {
		src := a[1].([]value)
		if anySym(src) {
			c := make([]value, len(src)+1)
			c[0] = byte(0xEE) // tag: identity-coded
			copy(c[1:], src)
			return c
		}
		return fromBytes(s2.EncodeBetter(nil, toBytes(src)))
	}
	externals["github.com/klauspost/compress/s2.Decode"] = func(fr *frame, a []value) value {
		src := a[1].([]value)
		if anySym(src) {
			// symbolic compressed data: either it carries the identity tag written by the
			// model of EncodeBetter (then the payload comes back), or it is hostile input,
			// for which the real decoder returns an error or some bytes - modelled as an
			// error (arbitrary decoded bytes are what the tagged case already gives)
			if len(src) == 0 || !fr.i.decide(eqByte(src[0], byte(0xEE))) {
				return tuple{[]value(nil), mkError(fr, "s2: corrupt input")}
			}
			c := make([]value, len(src)-1)
			copy(c, src[1:])
			return tuple{c, iface{}}
		}
		out, err := s2.Decode(nil, toBytes(src))
		if err != nil {
			return tuple{[]value(nil), mkError(fr, err.Error())}
		}
		return tuple{fromBytes(out), iface{}}
	}
}
