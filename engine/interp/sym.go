package interp

// Symbolic layer: terms, solver session, path decisions.
//
// A Session belongs to one worker. Terms carry a pointer to their session so
// that value-level operations (binop, conv, asInt64 ...) need no global state.

import (
	"bufio"
	"fmt"
	"go/token"
	"go/types"
	"io"
	"os"
	"os/exec"
	"sort"
	"strings"
	"time"
)

type Term struct {
	s     *Session
	id    int    // unique per path (creation order)
	sent  bool   // defined in the solver
	op    string // "const","var", smt op name, "extract","zext","sext","ite","not","and","or","=", "uf:<name>"
	args  []*Term
	width int // 0 = Bool
	val   uint64
	name  string
	p1    int // extract hi / ext amount
	p2    int
}

// sym is a symbolic scalar. The zero-length func array makes it uncomparable, so
// that any concrete == / map hashing on symbolic data panics loudly.
type sym struct {
	_    [0]func()
	kind types.BasicKind
	t    *Term
}

func mkSym(k types.BasicKind, t *Term) value {
	if t.op == "const" {
		return constToValue(k, t.val)
	}
	return sym{kind: k, t: t}
}

func constToValue(k types.BasicKind, v uint64) value {
	switch k {
	case types.Bool:
		return v != 0
	case types.Int:
		return int(int64(v))
	case types.Int8:
		return int8(v)
	case types.Int16:
		return int16(v)
	case types.Int32:
		return int32(v)
	case types.Int64:
		return int64(v)
	case types.Uint:
		return uint(v)
	case types.Uint8:
		return uint8(v)
	case types.Uint16:
		return uint16(v)
	case types.Uint32:
		return uint32(v)
	case types.Uint64:
		return uint64(v)
	case types.Uintptr:
		return uintptr(v)
	}
	panic(fmt.Sprintf("constToValue kind %v", k))
}

// symFloat is the float-expression mini domain (DESIGN 2.6).
type symFloat struct {
	_     [0]func()
	stage string // "u2f","log2","log2p1","floor","div","ceil"
	src   *Term
	den   uint64 // for div/ceil: constant denominator
}

type Decision struct {
	Kind string `json:"k"` // "br","val","ch"
	Val  uint64 `json:"v"`
}

type Stats struct {
	Queries, Sat, Unsat, Unknown int
	SolveDur                     time.Duration
	FallbackQueries              int
	ModelHits                    int
}

type Session struct {
	cmd    *exec.Cmd
	in     *bufio.Writer
	inRaw  io.WriteCloser
	out    *bufio.Reader
	Solver string
	St     Stats
	// path state
	nterms   int
	prefix   []Decision
	taken    []Decision
	newPaths [][]Decision // sibling prefixes discovered on this path
	vars     []*Term
	nameCnt  map[string]int
	cons     map[string]*Term
	asserted []*Term
	script   []string // declarations/definitions sent since reset (for fallback)
	model    map[int]uint64
	modelOK  bool
	hasUF    bool
	ufs      []string
	Log      bool
	TimeoutMs int
	segMode  bool
	nbuf     int
	symDecisions int // decisions that involved a symbolic term (for nontrivial counting)
	incomplete string // reason the path (and thus obligation) is incomplete
	// vector mode: nondets come from this vector; no solver is used
	vector map[string]uint64
	// regions declared on this path
	regions []regionRec
	maxConcretize int
	cuts    []string
}

type regionRec struct {
	name string
	t    *Term
}

func NewSession(solver string) *Session {
	s := &Session{Solver: solver, TimeoutMs: 10000, maxConcretize: 64}
	return s
}

func (s *Session) start() {
	if s.cmd != nil {
		return
	}
	switch s.Solver {
	case "", "z3":
		s.cmd = exec.Command("z3", "-in")
	case "z3-new":
		s.cmd = exec.Command("z3-new", "-in")
	case "cvc5":
		s.cmd = exec.Command("cvc5", "--incremental", "--produce-models", "--lang=smt2")
	default:
		panic("unknown solver " + s.Solver)
	}
	s.inRaw, _ = s.cmd.StdinPipe()
	s.in = bufio.NewWriterSize(s.inRaw, 1<<16)
	o, _ := s.cmd.StdoutPipe()
	s.out = bufio.NewReaderSize(o, 1<<16)
	s.cmd.Stderr = os.Stderr
	if err := s.cmd.Start(); err != nil {
		panic(err)
	}
}

func (s *Session) Close() {
	if s.cmd != nil {
		s.inRaw.Close()
		s.cmd.Process.Kill()
		s.cmd.Wait()
		s.cmd = nil
	}
}

func (s *Session) send(str string) {
	if s.vector != nil {
		return
	}
	s.start()
	if s.Log {
		fmt.Fprintln(os.Stderr, "SMT>", str)
	}
	s.in.WriteString(str)
	s.in.WriteByte('\n')
}

func (s *Session) readLine() string {
	s.in.Flush()
	l, err := s.out.ReadString('\n')
	if err != nil {
		panic(engineError{"solver died: " + err.Error()})
	}
	return strings.TrimSpace(l)
}

// readSexp reads a full balanced s-expression (possibly multi-line).
func (s *Session) readSexp() string {
	var sb strings.Builder
	depth := 0
	started := false
	for {
		l := s.readLine()
		sb.WriteString(l)
		sb.WriteByte(' ')
		for _, c := range l {
			if c == '(' {
				depth++
				started = true
			} else if c == ')' {
				depth--
			}
		}
		if started && depth <= 0 {
			break
		}
		if !started && l != "" {
			break
		}
	}
	return sb.String()
}

type engineError struct{ msg string }

func (e engineError) Error() string { return e.msg }

func (s *Session) beginPath(prefix []Decision) {
	if s.vector == nil {
		s.send("(reset)")
		s.send(fmt.Sprintf("(set-option :timeout %d)", s.TimeoutMs))
		if s.Solver == "cvc5" {
			s.send("(set-logic ALL)")
		}
	}
	s.nterms = 0
	s.prefix = prefix
	s.taken = s.taken[:0]
	s.newPaths = nil
	s.vars = nil
	s.nameCnt = map[string]int{}
	s.cons = map[string]*Term{}
	s.asserted = nil
	s.script = s.script[:0]
	s.model = map[int]uint64{}
	s.modelOK = true // empty path condition: any assignment is a model
	s.hasUF = false
	s.ufs = nil
	s.segMode = false
	s.nbuf = 0
	s.symDecisions = 0
	s.incomplete = ""
	s.regions = nil
	s.cuts = nil
}

func sortOf(w int) string {
	if w == 0 {
		return "Bool"
	}
	return fmt.Sprintf("(_ BitVec %d)", w)
}

func mask(w int) uint64 {
	if w >= 64 {
		return ^uint64(0)
	}
	return (uint64(1) << w) - 1
}

func (s *Session) intern(t *Term) *Term {
	var sb strings.Builder
	sb.WriteString(t.op)
	fmt.Fprintf(&sb, "/%d/%d/%d/%d", t.width, t.val, t.p1, t.p2)
	for _, a := range t.args {
		fmt.Fprintf(&sb, ",%d", a.id)
	}
	k := sb.String()
	if e, ok := s.cons[k]; ok {
		return e
	}
	s.nterms++
	t.id = s.nterms
	t.s = s
	s.cons[k] = t
	return t
}

func (s *Session) mk(op string, w int, args ...*Term) *Term {
	if op == "ite" {
		if args[0].op == "const" {
			if args[0].val != 0 {
				return args[1]
			}
			return args[2]
		}
		if args[1] == args[2] {
			return args[1]
		}
	}
	if (op == "and" || op == "or") && len(args) == 2 {
		for i := 0; i < 2; i++ {
			if args[i].op == "const" {
				if (op == "and") == (args[i].val != 0) {
					return args[1-i]
				}
				return args[i]
			}
		}
		if args[0] == args[1] {
			return args[0]
		}
	}
	if op == "not" && args[0].op == "not" {
		return args[0].args[0]
	}
	if op == "=" && args[0] == args[1] {
		return s.constT(0, 1)
	}
	if v, ok := fold(op, w, args); ok {
		return s.constT(w, v)
	}
	return s.intern(&Term{op: op, args: args, width: w})
}

func (s *Session) mkP(op string, w int, p1, p2 int, arg *Term) *Term {
	if arg.op == "const" {
		switch op {
		case "extract":
			return s.constT(w, (arg.val>>uint(p2))&mask(w))
		case "zext":
			return s.constT(w, arg.val)
		case "sext":
			return s.constT(w, uint64(sext64(arg.val, arg.width))&mask(w))
		}
	}
	return s.intern(&Term{op: op, args: []*Term{arg}, width: w, p1: p1, p2: p2})
}

func (s *Session) constT(w int, v uint64) *Term {
	if w != 0 {
		v &= mask(w)
	} else if v != 0 {
		v = 1
	}
	return s.intern(&Term{op: "const", width: w, val: v})
}

func (s *Session) newVar(name string, w int) *Term {
	k := s.nameCnt[name]
	s.nameCnt[name] = k + 1
	s.nterms++
	t := &Term{s: s, id: s.nterms, op: "var", width: w, name: fmt.Sprintf("%s#%d", name, k)}
	s.vars = append(s.vars, t)
	if s.vector != nil {
		v, ok := s.vector[t.name]
		if !ok {
			v = 0
		}
		s.model[t.id] = v
	}
	return t
}

// ensure defines t (and its sub-terms) in the solver.
func (s *Session) ensure(t *Term) {
	if t.sent || s.vector != nil {
		return
	}
	for _, a := range t.args {
		s.ensure(a)
	}
	t.sent = true
	var line string
	switch t.op {
	case "var":
		line = fmt.Sprintf("(declare-const t%d %s)", t.id, sortOf(t.width))
	default:
		line = fmt.Sprintf("(define-fun t%d () %s %s)", t.id, sortOf(t.width), s.body(t))
	}
	s.script = append(s.script, line)
	s.send(line)
}

func (s *Session) body(t *Term) string {
	switch t.op {
	case "const":
		if t.width == 0 {
			if t.val != 0 {
				return "true"
			}
			return "false"
		}
		return fmt.Sprintf("(_ bv%d %d)", t.val&mask(t.width), t.width)
	case "extract":
		return fmt.Sprintf("((_ extract %d %d) t%d)", t.p1, t.p2, t.args[0].id)
	case "zext":
		return fmt.Sprintf("((_ zero_extend %d) t%d)", t.p1, t.args[0].id)
	case "sext":
		return fmt.Sprintf("((_ sign_extend %d) t%d)", t.p1, t.args[0].id)
	}
	op := t.op
	if strings.HasPrefix(op, "uf:") {
		op = op[3:]
	}
	var sb strings.Builder
	sb.WriteString("(" + op)
	for _, a := range t.args {
		fmt.Fprintf(&sb, " t%d", a.id)
	}
	sb.WriteString(")")
	return sb.String()
}

func (s *Session) declareUF(name string, argW []int, resW int) {
	var sb strings.Builder
	for _, w := range argW {
		sb.WriteString(sortOf(w) + " ")
	}
	line := fmt.Sprintf("(declare-fun %s (%s) %s)", name, sb.String(), sortOf(resW))
	s.script = append(s.script, line)
	s.send(line)
	s.hasUF = true
	s.ufs = append(s.ufs, name)
}

// ---- evaluation under the cached model ----

func (s *Session) eval(t *Term) (uint64, bool) {
	memo := map[int]uint64{}
	return s.evalM(t, memo)
}

func (s *Session) evalM(t *Term, memo map[int]uint64) (uint64, bool) {
	if v, ok := memo[t.id]; ok {
		return v, true
	}
	var r uint64
	switch t.op {
	case "const":
		return t.val, true
	case "var":
		r = s.model[t.id] & mask1(t.width)
	case "ite":
		c, ok := s.evalM(t.args[0], memo)
		if !ok {
			return 0, false
		}
		if c != 0 {
			return s.evalM(t.args[1], memo)
		}
		return s.evalM(t.args[2], memo)
	case "extract":
		a, ok := s.evalM(t.args[0], memo)
		if !ok {
			return 0, false
		}
		r = (a >> uint(t.p2)) & mask(t.width)
	case "zext":
		a, ok := s.evalM(t.args[0], memo)
		if !ok {
			return 0, false
		}
		r = a
	case "sext":
		a, ok := s.evalM(t.args[0], memo)
		if !ok {
			return 0, false
		}
		r = uint64(sext64(a, t.args[0].width)) & mask(t.width)
	default:
		if strings.HasPrefix(t.op, "uf:") {
			return 0, false
		}
		cs := make([]*Term, len(t.args))
		for i, a := range t.args {
			v, ok := s.evalM(a, memo)
			if !ok {
				return 0, false
			}
			cs[i] = &Term{op: "const", width: a.width, val: v}
		}
		v, ok := fold(t.op, t.width, cs)
		if !ok {
			return 0, false
		}
		r = v
	}
	memo[t.id] = r
	return r, true
}

func mask1(w int) uint64 {
	if w == 0 {
		return 1
	}
	return mask(w)
}

// ---- solver queries ----

type qres int

const (
	qUnsat qres = iota
	qSat
	qUnknown
)

// query checks satisfiability of (path condition ∧ extras). When wantModel is
// set and the answer is sat, the model is fetched into a fresh map.
func (s *Session) query(wantModel bool, extras ...*Term) (qres, map[int]uint64) {
	if s.vector != nil {
		panic(engineError{"solver query in vector mode"})
	}
	for _, e := range extras {
		s.ensure(e)
	}
	t0 := time.Now()
	s.send("(push 1)")
	for _, e := range extras {
		s.send(fmt.Sprintf("(assert t%d)", e.id))
	}
	s.send("(check-sat)")
	r := s.readLine()
	for strings.HasPrefix(r, "(error") == false && r != "sat" && r != "unsat" && r != "unknown" && r != "timeout" {
		// skip noise (e.g. warnings)
		if r == "" {
			r = s.readLine()
			continue
		}
		break
	}
	s.St.Queries++
	var res qres
	var m map[int]uint64
	switch {
	case r == "sat":
		res = qSat
		s.St.Sat++
		if wantModel {
			m = s.fetchModel()
		}
	case r == "unsat":
		res = qUnsat
		s.St.Unsat++
	case strings.HasPrefix(r, "(error"):
		s.send("(pop 1)")
		s.St.SolveDur += time.Since(t0)
		panic(engineError{"solver error: " + r})
	default:
		res = qUnknown
	}
	s.send("(pop 1)")
	if res == qUnknown {
		res, m = s.fallback(wantModel, extras)
		if res == qUnknown {
			s.St.Unknown++
		}
	}
	s.St.SolveDur += time.Since(t0)
	return res, m
}

func (s *Session) fetchModel() map[int]uint64 {
	m := make(map[int]uint64, len(s.vars))
	var sent []*Term
	for _, v := range s.vars {
		if v.sent {
			sent = append(sent, v)
		}
	}
	const chunk = 200
	for i := 0; i < len(sent); i += chunk {
		j := i + chunk
		if j > len(sent) {
			j = len(sent)
		}
		var sb strings.Builder
		sb.WriteString("(get-value (")
		for _, v := range sent[i:j] {
			fmt.Fprintf(&sb, "t%d ", v.id)
		}
		sb.WriteString("))")
		s.send(sb.String())
		parseValues(s.readSexp(), m)
	}
	return m
}

// parseValues parses "((t12 #x0a) (t13 true) ...)" into m.
func parseValues(l string, m map[int]uint64) {
	i := 0
	for {
		k := strings.Index(l[i:], "(t")
		if k < 0 {
			return
		}
		i += k + 2
		j := i
		for j < len(l) && l[j] >= '0' && l[j] <= '9' {
			j++
		}
		var id int
		fmt.Sscanf(l[i:j], "%d", &id)
		i = j
		for i < len(l) && l[i] == ' ' {
			i++
		}
		e := strings.IndexByte(l[i:], ')')
		tok := strings.TrimSpace(l[i : i+e])
		m[id] = parseLit(tok)
		i += e
	}
}

func parseLit(tok string) uint64 {
	switch {
	case tok == "true":
		return 1
	case tok == "false":
		return 0
	case strings.HasPrefix(tok, "#x"):
		var v uint64
		fmt.Sscanf(tok[2:], "%x", &v)
		return v
	case strings.HasPrefix(tok, "#b"):
		var v uint64
		for _, c := range tok[2:] {
			v = v<<1 | uint64(c-'0')
		}
		return v
	case strings.HasPrefix(tok, "(_ bv"):
		var v uint64
		fmt.Sscanf(tok[5:], "%d", &v)
		return v
	}
	panic(engineError{"bad literal from solver: " + tok})
}

// fallback re-issues the current query one-shot to other solvers.
func (s *Session) fallback(wantModel bool, extras []*Term) (qres, map[int]uint64) {
	s.St.FallbackQueries++
	var sb strings.Builder
	sb.WriteString("(set-logic ALL)\n")
	for _, l := range s.script {
		sb.WriteString(l + "\n")
	}
	for _, a := range s.asserted {
		fmt.Fprintf(&sb, "(assert t%d)\n", a.id)
	}
	for _, e := range extras {
		fmt.Fprintf(&sb, "(assert t%d)\n", e.id)
	}
	sb.WriteString("(check-sat)\n")
	if wantModel {
		sb.WriteString("(get-value (")
		for _, v := range s.vars {
			if v.sent {
				fmt.Fprintf(&sb, "t%d ", v.id)
			}
		}
		sb.WriteString("))\n")
	}
	f, err := os.CreateTemp("", "gosymq*.smt2")
	if err != nil {
		return qUnknown, nil
	}
	f.WriteString(sb.String())
	f.Close()
	defer os.Remove(f.Name())
	to := fmt.Sprintf("%d", s.TimeoutMs*3)
	cmds := [][]string{
		{"cvc5", "--produce-models", "--solve-bv-as-int=sum", "--tlimit=" + to, f.Name()},
		{"z3-new", "-t:" + to, f.Name()},
		{"cvc5", "--produce-models", "--tlimit=" + to, f.Name()},
	}
	for _, c := range cmds {
		out, _ := exec.Command(c[0], c[1:]...).Output()
		txt := strings.TrimSpace(string(out))
		if strings.Contains(txt, "(error") {
			continue
		}
		if strings.HasPrefix(txt, "unsat") {
			s.St.Unsat++
			return qUnsat, nil
		}
		if strings.HasPrefix(txt, "sat") {
			s.St.Sat++
			var m map[int]uint64
			if wantModel {
				m = map[int]uint64{}
				if k := strings.Index(txt, "("); k >= 0 {
					parseValues(txt[k:], m)
				}
			}
			return qSat, m
		}
	}
	return qUnknown, nil
}

// assert adds t permanently to the path condition.
func (s *Session) assert(t *Term) {
	if t.op == "const" {
		if t.val == 0 {
			panic(pathInfeasible{})
		}
		return
	}
	if s.vector != nil {
		return
	}
	s.ensure(t)
	s.asserted = append(s.asserted, t)
	s.send(fmt.Sprintf("(assert t%d)", t.id))
	if s.modelOK {
		if v, ok := s.eval(t); !ok || v == 0 {
			s.modelOK = false
		}
	}
}

// needModel makes sure a model of the current path condition is cached;
// returns false if the path condition is unsatisfiable.
func (s *Session) needModel() bool {
	if s.modelOK || s.vector != nil {
		return true
	}
	r, m := s.query(true)
	switch r {
	case qSat:
		s.model = m
		s.modelOK = true
		return true
	case qUnsat:
		return false
	}
	s.incomplete = "solver unknown"
	panic(pathIncomplete{"solver returned unknown for the path condition"})
}

func (s *Session) not(t *Term) *Term { return s.mk("not", 0, t) }

func (s *Session) push(d Decision, c *Term) {
	s.taken = append(s.taken, d)
}

// branch decides a symbolic condition (a choice point).
func (s *Session) branch(c *Term) bool {
	if c.op == "const" {
		return c.val != 0
	}
	s.symDecisions++
	if s.vector != nil {
		v, ok := s.eval(c)
		if !ok {
			panic(engineError{"cannot evaluate condition in vector mode"})
		}
		return v != 0
	}
	k := len(s.taken)
	if k < len(s.prefix) {
		d := s.prefix[k]
		s.taken = append(s.taken, d)
		if d.Val == 1 {
			s.assert(c)
			return true
		}
		s.assert(s.not(c))
		return false
	}
	nc := s.not(c)
	if s.needModel() {
		if v, ok := s.eval(c); ok {
			s.St.ModelHits++
			side := v != 0
			other := nc
			if !side {
				other = c
			}
			r, _ := s.query(false, other)
			if r == qUnknown {
				s.incomplete = "solver unknown at branch"
				r = qUnsat // do not explore; obligation is marked incomplete
			}
			if r == qSat {
				alt := append(append([]Decision{}, s.taken...), Decision{"br", b2u(!side)})
				s.newPaths = append(s.newPaths, alt)
			}
			s.taken = append(s.taken, Decision{"br", b2u(side)})
			if side {
				s.assert(c)
			} else {
				s.assert(nc)
			}
			return side
		}
	} else {
		panic(pathInfeasible{})
	}
	// no model evaluation possible (uninterpreted functions): two queries
	rt, mt := s.query(true, c)
	rf, _ := s.query(false, nc)
	if rt == qUnknown || rf == qUnknown {
		s.incomplete = "solver unknown at branch"
	}
	ft, ff := rt == qSat, rf == qSat
	if !ft && !ff {
		panic(pathInfeasible{})
	}
	if ft && ff {
		alt := append(append([]Decision{}, s.taken...), Decision{"br", 0})
		s.newPaths = append(s.newPaths, alt)
	}
	if ft {
		s.taken = append(s.taken, Decision{"br", 1})
		s.assert(c)
		s.model, s.modelOK = mt, true
		return true
	}
	s.taken = append(s.taken, Decision{"br", 0})
	s.assert(nc)
	s.modelOK = false
	return false
}

type pathInfeasible struct{}
type assumeFail struct{}
type pathIncomplete struct{ why string }

// concretize forks over all feasible values of t (up to the cap).
func (s *Session) concretize(t *Term) uint64 {
	if t.op == "const" {
		return t.val
	}
	s.symDecisions++
	if s.vector != nil {
		v, ok := s.eval(t)
		if !ok {
			panic(engineError{"cannot evaluate in vector mode"})
		}
		return v
	}
	k := len(s.taken)
	if k < len(s.prefix) {
		d := s.prefix[k]
		s.taken = append(s.taken, d)
		s.assert(s.mk("=", 0, t, s.constT(t.width, d.Val)))
		return d.Val
	}
	if !s.needModel() {
		panic(pathInfeasible{})
	}
	var vals []uint64
	var blocks []*Term
	K := uint64(s.maxConcretize)
	small := s.mk("bvult", 0, t, s.constT(t.width, K))
	if t.width < 64 && K > mask(t.width) {
		small = s.constT(0, 1)
	}
	mv, mok := s.eval(t)
	if mok && (small.op == "const" || mv < K) {
		vals = append(vals, mv)
		blocks = append(blocks, s.not(s.mk("=", 0, t, s.constT(t.width, mv))))
	}
	// all values below the cap
	for uint64(len(vals)) <= K {
		q := append([]*Term{}, blocks...)
		if small.op != "const" {
			q = append(q, small)
		}
		r, v := s.queryVal(t, q)
		if r == qUnknown {
			s.incomplete = "solver unknown during concretisation"
			break
		}
		if r != qSat {
			break
		}
		vals = append(vals, v)
		blocks = append(blocks, s.not(s.mk("=", 0, t, s.constT(t.width, v))))
	}
	// above the cap: representative values only (recorded as a cut)
	if small.op != "const" {
		if r, _ := s.query(false, s.not(small)); r == qSat {
			s.cuts = append(s.cuts, fmt.Sprintf("site needing a concrete value had feasible values >= %d: only boundary representatives explored there", K))
			reps := []uint64{K, 255, 256, 1<<15 - 1, 1 << 15, 1<<16 - 1, 1 << 16, 1<<31 - 1, 1 << 31, 1<<32 - 1, 1 << 32, 1<<63 - 1, 1 << 63, ^uint64(0)}
			if mok && mv >= K {
				reps = append([]uint64{mv}, reps...)
			}
			seen := map[uint64]bool{}
			for _, rv := range reps {
				rv &= mask(t.width)
				if rv < K || seen[rv] {
					continue
				}
				seen[rv] = true
				eq := s.mk("=", 0, t, s.constT(t.width, rv))
				if mok && rv == mv {
					vals = append(vals, rv)
					continue
				}
				if r, _ := s.query(false, eq); r == qSat {
					vals = append(vals, rv)
				}
			}
		}
	}
	if len(vals) == 0 {
		panic(pathInfeasible{})
	}
	sort.Slice(vals[1:], func(i, j int) bool { return vals[1+i] < vals[1+j] })
	for _, v := range vals[1:] {
		alt := append(append([]Decision{}, s.taken...), Decision{"val", v})
		s.newPaths = append(s.newPaths, alt)
	}
	s.taken = append(s.taken, Decision{"val", vals[0]})
	s.assert(s.mk("=", 0, t, s.constT(t.width, vals[0])))
	return vals[0]
}

// queryVal asks for one value of t under pc ∧ blocks.
func (s *Session) queryVal(t *Term, blocks []*Term) (qres, uint64) {
	s.ensure(t)
	for _, b := range blocks {
		s.ensure(b)
	}
	t0 := time.Now()
	defer func() { s.St.SolveDur += time.Since(t0) }()
	s.send("(push 1)")
	for _, b := range blocks {
		s.send(fmt.Sprintf("(assert t%d)", b.id))
	}
	s.send("(check-sat)")
	r := s.readLine()
	s.St.Queries++
	var v uint64
	res := qUnknown
	switch {
	case r == "sat":
		res = qSat
		s.St.Sat++
		s.send(fmt.Sprintf("(get-value (t%d))", t.id))
		m := map[int]uint64{}
		parseValues(s.readSexp(), m)
		v = m[t.id]
	case r == "unsat":
		res = qUnsat
		s.St.Unsat++
	case strings.HasPrefix(r, "(error"):
		s.send("(pop 1)")
		panic(engineError{"solver error: " + r})
	default:
		s.St.Unknown++
	}
	s.send("(pop 1)")
	return res, v
}

// choose is a pure choice point among n alternatives (scheduler, map order...).
func (s *Session) choose(n int) int {
	if n <= 1 {
		return 0
	}
	if s.vector != nil {
		return 0
	}
	k := len(s.taken)
	if k < len(s.prefix) {
		d := s.prefix[k]
		s.taken = append(s.taken, d)
		return int(d.Val)
	}
	for v := 1; v < n; v++ {
		alt := append(append([]Decision{}, s.taken...), Decision{"ch", uint64(v)})
		s.newPaths = append(s.newPaths, alt)
	}
	s.taken = append(s.taken, Decision{"ch", 0})
	return 0
}

// currentModel returns a named model of the current path condition (plus extras).
func (s *Session) namedModel(m map[int]uint64) map[string]uint64 {
	r := map[string]uint64{}
	for _, v := range s.vars {
		r[v.name] = m[v.id] & mask1(v.width)
	}
	return r
}

// ---- value plumbing ----

func kindWidth(k types.BasicKind) (w int, signed bool) {
	switch k {
	case types.Bool, types.UntypedBool:
		return 0, false
	case types.Int8:
		return 8, true
	case types.Int16:
		return 16, true
	case types.Int32, types.UntypedRune:
		return 32, true
	case types.Int, types.Int64, types.UntypedInt:
		return 64, true
	case types.Uint8:
		return 8, false
	case types.Uint16:
		return 16, false
	case types.Uint32:
		return 32, false
	case types.Uint, types.Uint64, types.Uintptr:
		return 64, false
	}
	panic(fmt.Sprintf("kindWidth %v", k))
}

func basicKind(t types.Type) types.BasicKind {
	b, ok := t.Underlying().(*types.Basic)
	if !ok {
		panic("not basic: " + t.String())
	}
	k := b.Kind()
	switch k {
	case types.UntypedInt:
		return types.Int
	case types.UntypedBool:
		return types.Bool
	case types.UntypedRune:
		return types.Int32
	}
	return k
}

func isSym(v value) bool { _, ok := v.(sym); return ok }

func concUint(v value) uint64 {
	switch x := v.(type) {
	case bool:
		if x {
			return 1
		}
		return 0
	case int, int8, int16, int32, int64:
		return uint64(asInt64(x))
	case uint, uint8, uint16, uint32, uint64, uintptr:
		return asUint64(x)
	}
	panic(fmt.Sprintf("concUint %T", v))
}

func (s *Session) toTerm(v value, k types.BasicKind) *Term {
	if sv, ok := v.(sym); ok {
		return sv.t
	}
	w, _ := kindWidth(k)
	return s.constT(w, concUint(v))
}

func kindOfValue(v value) types.BasicKind {
	switch x := v.(type) {
	case bool:
		return types.Bool
	case int:
		return types.Int
	case int8:
		return types.Int8
	case int16:
		return types.Int16
	case int32:
		return types.Int32
	case int64:
		return types.Int64
	case uint:
		return types.Uint
	case uint8:
		return types.Uint8
	case uint16:
		return types.Uint16
	case uint32:
		return types.Uint32
	case uint64:
		return types.Uint64
	case uintptr:
		return types.Uintptr
	case sym:
		return x.kind
	}
	panic(fmt.Sprintf("kindOfValue %T", v))
}

// sessOf finds the session from any symbolic operand.
func sessOf(vs ...value) *Session {
	for _, v := range vs {
		switch x := v.(type) {
		case sym:
			return x.t.s
		case symFloat:
			return x.src.s
		case bseg:
			return x.len.s
		case bstr:
			return x.len.s
		case bptr:
			return x.idx.s
		case symStr:
			for _, e := range x.b {
				if se, ok := e.(sym); ok {
					return se.t.s
				}
			}
		}
	}
	panic("sessOf: no symbolic operand")
}

func symBinop(op token.Token, t types.Type, x, y value) value {
	s := sessOf(x, y)
	var kx types.BasicKind
	if isSym(x) {
		kx = kindOfValue(x)
	} else if op != token.SHL && op != token.SHR {
		kx = kindOfValue(y)
	} else {
		kx = kindOfValue(x)
	}
	w, signed := kindWidth(kx)
	tx := s.toTerm(x, kx)
	pick := func(u, sg string) string {
		if signed {
			return sg
		}
		return u
	}
	switch op {
	case token.SHL, token.SHR:
		ky := kindOfValue(y)
		wy, ysigned := kindWidth(ky)
		ty := s.toTerm(y, ky)
		if ysigned {
			// negative shift count panics
			if s.branch(s.mk("bvslt", 0, ty, s.constT(wy, 0))) {
				panic(runtimeErr("negative shift amount"))
			}
		}
		if wy < w {
			ty = s.mkP("zext", w, w-wy, 0, ty)
		} else if wy > w {
			big := s.mk("bvuge", 0, ty, s.constT(wy, uint64(w)))
			lo := s.mkP("extract", w, w-1, 0, ty)
			ty = s.mk("ite", w, big, s.constT(w, uint64(w)), lo)
		}
		if op == token.SHL {
			return mkSym(kx, s.mk("bvshl", w, tx, ty))
		}
		return mkSym(kx, s.mk(pick("bvlshr", "bvashr"), w, tx, ty))
	}
	ty := s.toTerm(y, kx)
	bv := func(o string) value { return mkSym(kx, s.mk(o, w, tx, ty)) }
	bl := func(o string) value { return mkSym(types.Bool, s.mk(o, 0, tx, ty)) }
	if kx == types.Bool {
		switch op {
		case token.EQL:
			return bl("=")
		case token.NEQ:
			return mkSym(types.Bool, s.not(s.mk("=", 0, tx, ty)))
		case token.LAND:
			return bl("and")
		case token.LOR:
			return bl("or")
		}
		panic("bool binop " + op.String())
	}
	switch op {
	case token.ADD:
		return bv("bvadd")
	case token.SUB:
		return bv("bvsub")
	case token.MUL:
		return bv("bvmul")
	case token.QUO:
		if s.branch(s.mk("=", 0, ty, s.constT(w, 0))) {
			panic(runtimeErr("integer divide by zero"))
		}
		return bv(pick("bvudiv", "bvsdiv"))
	case token.REM:
		if s.branch(s.mk("=", 0, ty, s.constT(w, 0))) {
			panic(runtimeErr("integer divide by zero"))
		}
		return bv(pick("bvurem", "bvsrem"))
	case token.AND:
		return bv("bvand")
	case token.OR:
		return bv("bvor")
	case token.XOR:
		return bv("bvxor")
	case token.AND_NOT:
		return mkSym(kx, s.mk("bvand", w, tx, s.mk("bvnot", w, ty)))
	case token.EQL:
		return bl("=")
	case token.NEQ:
		return mkSym(types.Bool, s.not(s.mk("=", 0, tx, ty)))
	case token.LSS:
		return bl(pick("bvult", "bvslt"))
	case token.LEQ:
		return bl(pick("bvule", "bvsle"))
	case token.GTR:
		return bl(pick("bvugt", "bvsgt"))
	case token.GEQ:
		return bl(pick("bvuge", "bvsge"))
	}
	panic("symBinop: " + op.String())
}

// runtimeErr mimics a Go runtime error raised by the target program.
type runtimeErr string

func (e runtimeErr) Error() string { return "runtime error: " + string(e) }
func (e runtimeErr) RuntimeError() {}

func symUnop(op token.Token, x sym) value {
	s := x.t.s
	w, _ := kindWidth(x.kind)
	switch op {
	case token.NOT:
		return mkSym(types.Bool, s.not(x.t))
	case token.SUB:
		return mkSym(x.kind, s.mk("bvneg", w, x.t))
	case token.XOR:
		return mkSym(x.kind, s.mk("bvnot", w, x.t))
	}
	panic("symUnop " + op.String())
}

func symConv(dst types.Type, x sym) value {
	s := x.t.s
	kd := basicKind(dst)
	if kd == types.Float64 {
		ws, _ := kindWidth(x.kind)
		src := x.t
		if ws < 64 {
			src = s.mkP("zext", 64, 64-ws, 0, src)
		}
		return symFloat{stage: "u2f", src: src}
	}
	if kd == types.String {
		// string(rune) of a symbolic rune: ASCII gives a one-byte string; anything else is
		// a multi-byte encoding of a symbolic value, outside the engine
		w, _ := kindWidth(x.kind)
		// unsigned comparison: negative runes are above 0x80 too
		if !s.branch(s.mk("bvult", 0, x.t, s.constT(w, 0x80))) {
			panic(unsupported{"string(rune): non-ASCII symbolic rune"})
		}
		return symStr{[]value{symConv(types.Typ[types.Uint8], x)}}
	}
	wd, _ := kindWidth(kd)
	ws, ssigned := kindWidth(x.kind)
	var t *Term
	switch {
	case wd == ws:
		t = x.t
	case wd < ws:
		t = s.mkP("extract", wd, wd-1, 0, x.t)
	default:
		op := "zext"
		if ssigned {
			op = "sext"
		}
		t = s.mkP(op, wd, wd-ws, 0, x.t)
	}
	return mkSym(kd, t)
}

// bitlen(u) as a 64-bit term
func (s *Session) bitlen(u *Term) *Term {
	res := s.constT(64, 0)
	for k := 1; k <= 64; k++ {
		ge := s.mk("bvuge", 0, u, s.constT(64, uint64(1)<<(k-1)))
		res = s.mk("ite", 64, ge, s.constT(64, uint64(k)), res)
	}
	return res
}

// FloatDelta[k] tells whether int(Floor(Log2(float64(u))+1)) can exceed bitlen(u)
// for u of bit length k. It is measured natively at start-up (see measureFloat).
var FloatDelta [65]bool

func init() { measureFloat() }

func measureFloat() {
	for k := 1; k <= 64; k++ {
		lo := uint64(1) << (k - 1)
		hi := lo<<1 - 1
		if k == 64 {
			hi = ^uint64(0)
		}
		for _, u := range []uint64{lo, lo + 1, hi - 1, hi, lo + (hi-lo)/2} {
			if u < lo || u > hi {
				continue
			}
			got := int(mathFloor(mathLog2(float64(u)) + 1))
			if got != k {
				FloatDelta[k] = true
			}
		}
	}
}

// float mini-domain: int(floor(log2(float64(u))+1)) and ceil(float64(a)/c)
func symFloatToInt(f symFloat, kd types.BasicKind) value {
	s := f.src.s
	switch f.stage {
	case "floor":
		if s.branch(s.mk("=", 0, f.src, s.constT(64, 0))) {
			return constToValue(kd, uint64(1)<<63) // int(-Inf) on amd64
		}
		bl := s.bitlen(f.src)
		bits := s.newVar("floatbits", 64)
		if s.vector != nil {
			// vector mode: evaluate exactly
			u, _ := s.eval(f.src)
			s.model[bits.id] = uint64(int(mathFloor(mathLog2(float64(u)) + 1)))
		}
		s.assert(s.mk("bvuge", 0, bits, bl))
		hi := bl
		for k := 64; k >= 1; k-- {
			if FloatDelta[k] {
				hi = s.mk("ite", 64, s.mk("=", 0, bl, s.constT(64, uint64(k))), s.constT(64, uint64(k+1)), hi)
			}
		}
		s.assert(s.mk("bvule", 0, bits, hi))
		wd, _ := kindWidth(kd)
		if wd < 64 {
			return mkSym(kd, s.mkP("extract", wd, wd-1, 0, bits))
		}
		return mkSym(kd, bits)
	case "ceil":
		// ceil(float64(a)/c) for a < 2^32 and constant c: (a + c - 1) udiv c
		if !s.branchAssume(s.mk("bvult", 0, f.src, s.constT(64, 1<<32))) {
			panic("unsupported: Ceil(float64(a)/c) with a >= 2^32")
		}
		q := s.mk("bvudiv", 64, s.mk("bvadd", 64, f.src, s.constT(64, f.den-1)), s.constT(64, f.den))
		wd, _ := kindWidth(kd)
		if wd < 64 {
			return mkSym(kd, s.mkP("extract", wd, wd-1, 0, q))
		}
		return mkSym(kd, q)
	}
	panic("unsupported float expression (" + f.stage + ") converted to integer")
}

// branchAssume branches; used where the false side is unsupported.
func (s *Session) branchAssume(c *Term) bool { return s.branch(c) }

func b2u(b bool) uint64 {
	if b {
		return 1
	}
	return 0
}
