// Copyright 2013 The Go Authors. All rights reserved.
// Use of this source code is governed by a BSD-style
// license that can be found in the LICENSE file.

package interp

// Custom hashtable atop map.
// For use when the key's equivalence relation is not consistent with ==.

// The Go specification doesn't address the atomicity of map operations.
// The FAQ states that an implementation is permitted to crash on
// concurrent map access.

import (
	"go/types"
)

type hashable interface {
	hash(t types.Type) int
	eq(t types.Type, x interface{}) bool
}

type entry struct {
	key   hashable
	value value
	next  *entry
}

// A hashtable atop the built-in map.  Since each bucket contains
// exactly one hash value, there's no need to perform hash-equality
// tests when walking the linked list.  Rehashing is done by the
// underlying map.
type hashmap struct {
	keyType types.Type
	table   map[int]*entry
	length  int // number of entries in map
}

// makeMap returns an empty initialized map of key type kt,
// preallocating space for reserve elements.
func makeMap(kt types.Type, reserve int64) value {
	if usesBuiltinMap(kt) {
		return make(map[value]value, reserve)
	}
	return &hashmap{keyType: kt, table: make(map[int]*entry, reserve)}
}

// delete removes the association for key k, if any.
func (m *hashmap) delete(k hashable) {
	if m != nil {
		hash := k.hash(m.keyType)
		head := m.table[hash]
		if head != nil {
			if k.eq(m.keyType, head.key) {
				m.table[hash] = head.next
				m.length--
				return
			}
			prev := head
			for e := head.next; e != nil; e = e.next {
				if k.eq(m.keyType, e.key) {
					prev.next = e.next
					m.length--
					return
				}
				prev = e
			}
		}
	}
}

// lookup returns the value associated with key k, if present, or
// value(nil) otherwise.
func (m *hashmap) lookup(k hashable) value {
	if m != nil {
		hash := k.hash(m.keyType)
		for e := m.table[hash]; e != nil; e = e.next {
			if k.eq(m.keyType, e.key) {
				return e.value
			}
		}
	}
	return nil
}

// insert updates the map to associate key k with value v.  If there
// was already an association for an eq() (though not necessarily ==)
// k, the previous key remains in the map and its associated value is
// updated.
func (m *hashmap) insert(k hashable, v value) {
	hash := k.hash(m.keyType)
	head := m.table[hash]
	for e := head; e != nil; e = e.next {
		if k.eq(m.keyType, e.key) {
			e.value = v
			return
		}
	}
	m.table[hash] = &entry{
		key:   k,
		value: v,
		next:  head,
	}
	m.length++
}

// len returns the number of key/value associations in the map.
func (m *hashmap) len() int {
	if m != nil {
		return m.length
	}
	return 0
}

// entries returns a rangeable map of entries.
func (m *hashmap) entries() map[int]*entry {
	if m != nil {
		return m.table
	}
	return nil
}
