package interp

import (
	"fmt"
	"go/types"
	"golang.org/x/tools/go/ssa"
)

var Missing = map[string]int{}

func init() {
	externals["internal/reflectlite.Swapper"] = swapper
	externals["reflect.Swapper"] = swapper
}

func swapper(fr *frame, args []value) value {
	sl := args[0].(iface).v.([]value)
	// return a closure value: we need an *ssa.Function... use builtin hack: externalClosure
	return &extClosure{fn: func(a []value) value {
		i, j := a[0].(int), a[1].(int)
		sl[i], sl[j] = sl[j], sl[i]
		return nil
	}}
}

type extClosure struct{ fn func([]value) value }

func mkError(fr *frame, msg string) value {
	pkg := fr.i.prog.ImportedPackage("errors")
	t := pkg.Type("errorString").Object().Type()
	var v value = structure{msg}
	return iface{t: types.NewPointer(t), v: &v}
}

var _ = fmt.Sprint
var _ *ssa.Function

func init() {
	externals["sort.Slice"] = func(fr *frame, args []value) value {
		sl := args[0].(iface).v.([]value)
		less := args[1]
		swap := &extClosure{fn: func(a []value) value {
			i, j := a[0].(int), a[1].(int)
			sl[i], sl[j] = sl[j], sl[i]
			return nil
		}}
		pkg := fr.i.prog.ImportedPackage("sort")
		fn := pkg.Func("pdqsort_func")
		n := len(sl)
		limit := 0
		for x := uint(n); x != 0; x >>= 1 {
			limit++
		}
		call(fr.i, fr, 0, fn, []value{structure{less, swap}, 0, n, limit})
		return nil
	}
}

func init() {
	// sort.SliceStable: the real stable_func SSA with an interpreter swapper (as sort.Slice)
	externals["sort.SliceStable"] = func(fr *frame, args []value) value {
		sl := args[0].(iface).v.([]value)
		less := args[1]
		swap := &extClosure{fn: func(a []value) value {
			i, j := a[0].(int), a[1].(int)
			sl[i], sl[j] = sl[j], sl[i]
			return nil
		}}
		pkg := fr.i.prog.ImportedPackage("sort")
		fn := pkg.Func("stable_func")
		call(fr.i, fr, 0, fn, []value{structure{less, swap}, len(sl)})
		return nil
	}
}

func init() {
	externals["math.Floor"] = func(fr *frame, a []value) value {
		if f, ok := a[0].(symFloat); ok {
			if f.stage == "log2p1" {
				return symFloat{stage: "floor", src: f.src}
			}
			panic(unsupported{"math.Floor of symbolic float (" + f.stage + ")"})
		}
		return mathFloor(a[0].(float64))
	}
	externals["math.Ceil"] = func(fr *frame, a []value) value {
		if f, ok := a[0].(symFloat); ok {
			if f.stage == "div" {
				return symFloat{stage: "ceil", src: f.src, den: f.den}
			}
			panic(unsupported{"math.Ceil of symbolic float (" + f.stage + ")"})
		}
		return mathCeil(a[0].(float64))
	}
	externals["math.Log2"] = func(fr *frame, a []value) value {
		if f, ok := a[0].(symFloat); ok {
			if f.stage == "u2f" {
				return symFloat{stage: "log2", src: f.src}
			}
			panic(unsupported{"math.Log2 of symbolic float (" + f.stage + ")"})
		}
		return mathLog2(a[0].(float64))
	}
}
