package interp

// Intrinsics of the harness runtime package (pkg/zzverif) and interpreter
// helpers that need the session (symbolic index, symbolic make).

import (
	"fmt"
	"go/types"
	"strings"

	"golang.org/x/tools/go/ssa"
)

const vp = "github.com/wrgl/wrgl/pkg/zzverif."

func (i *interpreter) nondet(name string, k types.BasicKind) value {
	w, _ := kindWidth(k)
	v := i.s.newVar(name, w)
	if i.s.vector != nil {
		return constToValue(k, i.s.model[v.id])
	}
	return sym{kind: k, t: v}
}

func init() {
	ext := func(name string, f externalFn) { externals[vp+name] = f }
	ext("Bool", func(fr *frame, a []value) value { return fr.i.nondet(a[0].(string), types.Bool) })
	ext("Byte", func(fr *frame, a []value) value { return fr.i.nondet(a[0].(string), types.Uint8) })
	ext("Uint16", func(fr *frame, a []value) value { return fr.i.nondet(a[0].(string), types.Uint16) })
	ext("Uint32", func(fr *frame, a []value) value { return fr.i.nondet(a[0].(string), types.Uint32) })
	ext("Uint64", func(fr *frame, a []value) value { return fr.i.nondet(a[0].(string), types.Uint64) })
	ext("Int64", func(fr *frame, a []value) value { return fr.i.nondet(a[0].(string), types.Int64) })
	ext("Int", func(fr *frame, a []value) value {
		s := fr.i.s
		lo, hi := a[1].(int), a[2].(int)
		v := fr.i.nondet(a[0].(string), types.Int)
		if sv, ok := v.(sym); ok {
			if _, seen := s.model[sv.t.id]; !seen {
				s.model[sv.t.id] = uint64(lo)
			}
			s.assert(s.mk("bvsge", 0, sv.t, s.constT(64, uint64(lo))))
			s.assert(s.mk("bvsle", 0, sv.t, s.constT(64, uint64(hi))))
			return v
		}
		if c := v.(int); c < lo || c > hi {
			panic(assumeFail{})
		}
		return v
	})
	ext("Choose", func(fr *frame, a []value) value {
		s := fr.i.s
		n := a[1].(int)
		v := fr.i.nondet(a[0].(string), types.Int)
		if sv, ok := v.(sym); ok {
			s.assert(s.mk("bvult", 0, sv.t, s.constT(64, uint64(n))))
			return int(s.concretize(sv.t))
		}
		if c := v.(int); c < 0 || c >= n {
			panic(assumeFail{})
		}
		return v
	})
	ext("Concrete", func(fr *frame, a []value) value {
		if sv, ok := a[0].(sym); ok {
			return int(int64(fr.i.s.concretize(sv.t)))
		}
		return a[0]
	})
	ext("Bytes", func(fr *frame, a []value) value {
		n := a[1].(int)
		sl := make([]value, n)
		for k := range sl {
			sl[k] = fr.i.nondet(fmt.Sprintf("%s[%d]", a[0].(string), k), types.Uint8)
		}
		return sl
	})
	ext("String", func(fr *frame, a []value) value {
		n := a[1].(int)
		sl := make([]value, n)
		for k := range sl {
			sl[k] = fr.i.nondet(fmt.Sprintf("%s[%d]", a[0].(string), k), types.Uint8)
		}
		return mkStr(sl)
	})
	ext("Assume", func(fr *frame, a []value) value {
		s := fr.i.s
		if sc, ok := a[0].(sym); ok {
			if s.vector != nil {
				if v, _ := s.eval(sc.t); v == 0 {
					panic(assumeFail{})
				}
				return nil
			}
			s.assert(sc.t)
			if !s.needModel() {
				panic(assumeFail{})
			}
			return nil
		}
		if !a[0].(bool) {
			panic(assumeFail{})
		}
		return nil
	})
	ext("Assert", func(fr *frame, a []value) value {
		s := fr.i.s
		label := a[0].(string)
		fr.i.ps.asserts = append(fr.i.ps.asserts, label)
		sc, ok := a[1].(sym)
		if !ok {
			if !a[1].(bool) {
				fr.i.reportViolation("assert", "assert: "+label, nil)
			}
			return nil
		}
		s.symDecisions++
		if s.vector != nil {
			if v, _ := s.eval(sc.t); v == 0 {
				fr.i.reportViolation("assert", "assert: "+label, nil)
			}
			return nil
		}
		nc := s.not(sc.t)
		viol := false
		if s.needModel() {
			if v, ok := s.eval(sc.t); ok && v == 0 {
				viol = true
			}
		} else {
			panic(pathInfeasible{})
		}
		if !viol {
			r, _ := s.query(false, nc)
			if r == qUnknown {
				s.incomplete = "solver unknown at assertion " + label
			}
			viol = r == qSat
		}
		if viol {
			fr.i.reportViolation("assert", "assert: "+label, nc)
		}
		// continue on the side where the assertion holds
		s.assert(sc.t)
		if !s.needModel() {
			panic(assumeFail{})
		}
		return nil
	})
	ext("Region", func(fr *frame, a []value) value {
		s := fr.i.s
		var t *Term
		if sc, ok := a[1].(sym); ok {
			t = sc.t
		} else {
			t = s.constT(0, b2u(a[1].(bool)))
		}
		s.regions = append(s.regions, regionRec{a[0].(string), t})
		return nil
	})
	ext("Reach", func(fr *frame, a []value) value {
		fr.i.ps.reached = append(fr.i.ps.reached, a[0].(string))
		return nil
	})
	ext("Observe", func(fr *frame, a []value) value {
		var sb strings.Builder
		sb.WriteString(a[0].(string))
		for _, x := range a[1].([]value) {
			sb.WriteString(" ")
			sb.WriteString(observeString(fr, x))
		}
		fr.i.ps.observed = append(fr.i.ps.observed, "OBS "+sb.String())
		return nil
	})
	ext("Param", func(fr *frame, a []value) value {
		if v, ok := fr.i.cfg.Params[a[0].(string)]; ok {
			return v
		}
		return a[1]
	})
	ext("B2I", func(fr *frame, a []value) value {
		if sc, ok := a[0].(sym); ok {
			s := sc.t.s
			return mkSym(types.Int, s.mk("ite", 64, sc.t, s.constT(64, 1), s.constT(64, 0)))
		}
		if a[0].(bool) {
			return 1
		}
		return 0
	})
	ext("Ite", func(fr *frame, a []value) value {
		sc, ok := a[0].(sym)
		if !ok {
			if a[0].(bool) {
				return a[1]
			}
			return a[2]
		}
		s := sc.t.s
		return mkSym(types.Int, s.mk("ite", 64, sc.t, s.toTerm(a[1], types.Int), s.toTerm(a[2], types.Int)))
	})
	ext("And", func(fr *frame, a []value) value { return boolOp("and", a[0], a[1]) })
	ext("Or", func(fr *frame, a []value) value { return boolOp("or", a[0], a[1]) })
	ext("UnderGosym", func(fr *frame, a []value) value { return true })
	ext("Symbolic", func(fr *frame, a []value) value { return fr.i.s.vector == nil })
	ext("Try", func(fr *frame, a []value) (res value) {
		defer func() {
			if r := recover(); r != nil {
				if isControlPanic(r) {
					panic(r)
				}
				res = true
			}
		}()
		call(fr.i, fr, 0, a[0], nil)
		return false
	})
	ext("TryMsg", func(fr *frame, a []value) (res value) {
		defer func() {
			if r := recover(); r != nil {
				if isControlPanic(r) {
					panic(r)
				}
				switch p := r.(type) {
				case targetPanic:
					res = "panic: " + panicText(fr.i, p.v)
				case error:
					res = "panic: " + p.Error()
				default:
					res = fmt.Sprintf("panic: %v", r)
				}
			}
		}()
		call(fr.i, fr, 0, a[0], nil)
		return ""
	})
	ext("SegMode", func(fr *frame, a []value) value { fr.i.s.segMode = a[0].(bool); return nil })
	ext("SymLenString", func(fr *frame, a []value) value {
		cur := fr.i.s
		if cur.vector != nil {
			panic(unsupported{"SymLenString in vector mode"})
		}
		name := fmt.Sprintf("uf_%s_%d", sanitize(a[0].(string)), len(cur.ufs))
		cur.declareUF(name, []int{64}, 8)
		l := cur.newVar(a[0].(string)+".len", 64)
		cur.assert(cur.mk("bvule", 0, l, cur.c64(a[1].(int))))
		b := cur.newBuf()
		b.ufName = name
		return bstr{buf: b, off: cur.c64(0), len: l}
	})
	ext("AssertBytesEq", func(fr *frame, a []value) value {
		cur := fr.i.s
		label := a[0].(string)
		fr.i.ps.asserts = append(fr.i.ps.asserts, label)
		x, y := cur.asBstr(a[1]), cur.asBstr(a[2])
		w := cur.strNeqWitness(x, y)
		if r, _ := cur.query(false, w); r == qSat {
			fr.i.reportViolation("assert", "assert: "+label, w)
		} else if r == qUnknown {
			cur.incomplete = "solver unknown at assertion " + label
		}
		return nil
	})
}

func sanitize(s string) string {
	var sb strings.Builder
	for _, c := range s {
		if (c >= 'a' && c <= 'z') || (c >= 'A' && c <= 'Z') || (c >= '0' && c <= '9') {
			sb.WriteRune(c)
		} else {
			sb.WriteByte('_')
		}
	}
	return sb.String()
}

func boolOp(op string, x, y value) value {
	sx, okx := x.(sym)
	sy, oky := y.(sym)
	if !okx && !oky {
		if op == "and" {
			return x.(bool) && y.(bool)
		}
		return x.(bool) || y.(bool)
	}
	var s *Session
	if okx {
		s = sx.t.s
	} else {
		s = sy.t.s
	}
	return mkSym(types.Bool, s.mk(op, 0, s.toTerm(x, types.Bool), s.toTerm(y, types.Bool)))
}

// observeString renders a value for the differential validator; it must match
// the native runtime's rendering (fmt %v of ints/bools, %q of strings, %x of bytes).
func observeString(fr *frame, x value) string {
	if ifc, ok := x.(iface); ok {
		if ifc.t == nil {
			return "<nil>"
		}
		if m := findMethod(fr.i, ifc.t, "Error"); m != nil {
			return fmt.Sprintf("err(%s)", call(fr.i, fr, 0, m, []value{ifc.v}).(string))
		}
		x = ifc.v
	}
	switch v := x.(type) {
	case string:
		return fmt.Sprintf("%q", v)
	case symStr:
		return fmt.Sprintf("%q", concStr(fr.i.s, v))
	case []value:
		allb := true
		bs := make([]byte, len(v))
		for k, e := range v {
			switch b := e.(type) {
			case byte:
				bs[k] = b
			case sym:
				if b.kind == types.Uint8 {
					c, _ := fr.i.s.eval(b.t)
					bs[k] = byte(c)
				} else {
					allb = false
				}
			default:
				allb = false
			}
		}
		if allb {
			return fmt.Sprintf("%x", bs)
		}
		var sb strings.Builder
		sb.WriteString("[")
		for k, e := range v {
			if k > 0 {
				sb.WriteString(" ")
			}
			sb.WriteString(observeString(fr, e))
		}
		sb.WriteString("]")
		return sb.String()
	case sym:
		c, _ := fr.i.s.eval(v.t)
		return fmt.Sprint(constToValue(v.kind, c))
	case bool, int, int8, int16, int32, int64, uint, uint8, uint16, uint32, uint64, uintptr:
		return fmt.Sprint(v)
	}
	return fmt.Sprintf("?%T", x)
}

func concStr(s *Session, v symStr) string {
	bs := make([]byte, len(v.b))
	for k, e := range v.b {
		switch b := e.(type) {
		case byte:
			bs[k] = b
		case sym:
			c, _ := s.eval(b.t)
			bs[k] = byte(c)
		}
	}
	return string(bs)
}

// index resolves an index into a container of length n: bounds check (forking)
// then concretisation of a symbolic index.
func (i *interpreter) index(idx value, n int) int64 {
	sx, ok := idx.(sym)
	if !ok {
		return asInt64(idx)
	}
	s := i.s
	t := s.i64(sx)
	inb := s.and(s.mk("bvsle", 0, s.c64(0), t), s.mk("bvslt", 0, t, s.c64(n)))
	if !s.branch(inb) {
		panic(runtimeErr(fmt.Sprintf("index out of range [symbolic] with length %d", n)))
	}
	return int64(s.concretize(t))
}

// makeSlice implements ssa.MakeSlice, including symbolic sizes.
func (i *interpreter) makeSlice(instr *ssa.MakeSlice, ln, cp value) []value {
	tElt := instr.Type().Underlying().(*types.Slice).Elem()
	n := i.symSize(ln, tElt, "len", true)
	c := n
	if cp != nil {
		if _, isSym := cp.(sym); isSym {
			// symbolic capacity: all checks (negative, < len, allocation budget) are made on
			// the term; the backing array is then materialised with cap = len, which is
			// unobservable unless the program reslices beyond len or reads cap().
			c = i.symSize(cp, tElt, "cap", false)
			if c < n {
				c = n
			}
		} else if asInt64(cp) != n {
			c = i.symSize(cp, tElt, "cap", true)
		}
	}
	if c < n {
		panic(runtimeErr("makeslice: cap out of range"))
	}
	slice := make([]value, c)
	for k := range slice {
		slice[k] = zero(tElt)
	}
	return slice[:n]
}

func (i *interpreter) symSize(v value, elem types.Type, what string, materialise bool) int64 {
	sx, ok := v.(sym)
	if !ok {
		n := asInt64(v)
		if n < 0 || n > 1<<40 {
			panic(runtimeErr("makeslice: " + what + " out of range"))
		}
		if i.cfg.AllocBudget > 0 && n*i.sizes.Sizeof(elem) > i.cfg.AllocBudget {
			i.reportViolation("alloc", fmt.Sprintf("alloc: make of %d elements x %d bytes exceeds the allocation budget", n, i.sizes.Sizeof(elem)), nil)
			panic(pathCut{"allocation over budget (reported)"})
		}
		return n
	}
	s := i.s
	t := s.i64(sx)
	if s.branch(s.mk("bvslt", 0, t, s.c64(0))) {
		panic(runtimeErr("makeslice: " + what + " out of range"))
	}
	esz := i.sizes.Sizeof(elem)
	if esz < 1 {
		esz = 1
	}
	if i.cfg.AllocBudget > 0 {
		lim := i.cfg.AllocBudget / esz
		over := s.mk("bvsgt", 0, t, s.c64(int(lim)))
		if s.branch(over) {
			i.reportViolation("alloc", fmt.Sprintf("alloc: make with attacker-controlled size can exceed %d bytes (element size %d)", i.cfg.AllocBudget, esz), nil)
			panic(pathCut{"allocation over budget (reported)"})
		}
	} else if s.branch(s.mk("bvsgt", 0, t, s.c64(1<<40))) {
		panic(runtimeErr("makeslice: " + what + " out of range"))
	}
	if !materialise {
		i.s.cuts = append(i.s.cuts, "make with symbolic capacity materialised with cap = len")
		return 0
	}
	if s.branch(s.mk("bvsgt", 0, t, s.c64(int(i.cfg.AllocCap)))) {
		panic(pathCut{fmt.Sprintf("symbolic make size above exploration cap %d", i.cfg.AllocCap)})
	}
	return int64(s.concretize(t))
}
