package interp

// In-memory file model for *os.File values created through testutils.TempFile /
// os.CreateTemp (the sorter's spill chunks, the merge hash-set file): POSIX-like
// read/write/seek with a name registry so harnesses can assert that temporary
// files are gone.

import (
	"fmt"
	"go/types"
)

type memFile struct {
	name    string
	data    []value
	pos     int
	closed  bool
	removed bool
}

func (i *interpreter) files() map[*value]*memFile {
	if i.sc.files == nil {
		i.sc.files = map[*value]*memFile{}
	}
	return i.sc.files
}

func (i *interpreter) newTempFile(fr *frame, pattern string) value {
	pkg := i.prog.ImportedPackage("os")
	ft := pkg.Type("File").Object().Type()
	cell := zero(ft)
	p := &cell
	n := len(i.files())
	i.files()[p] = &memFile{name: fmt.Sprintf("/memtmp/%s%d", pattern, n)}
	i.sc.fileOrder = append(i.sc.fileOrder, p)
	return p
}

func (i *interpreter) fileOf(v value) *memFile {
	p, ok := v.(*value)
	if !ok {
		panic(unsupported{"os.File operation on a file not created through the in-memory model"})
	}
	f := i.files()[p]
	if f == nil {
		panic(unsupported{"os.File operation on a file not created through the in-memory model"})
	}
	return f
}

func mkErrno(fr *frame, msg string) value { return mkError(fr, msg) }

func ioEOF(fr *frame) value {
	pkg := fr.i.prog.ImportedPackage("io")
	return *fr.i.global(pkg.Var("EOF"))
}

func init() {
	tempFile := func(fr *frame, a []value) value {
		pat, _ := a[1].(string)
		return tuple{fr.i.newTempFile(fr, pat), iface{}}
	}
	externals["github.com/wrgl/wrgl/pkg/testutils.TempFile"] = tempFile
	externals["os.CreateTemp"] = tempFile
	externals["io/ioutil.TempFile"] = tempFile
	externals["(*os.File).Name"] = func(fr *frame, a []value) value { return fr.i.fileOf(a[0]).name }
	externals["(*os.File).Close"] = func(fr *frame, a []value) value {
		f := fr.i.fileOf(a[0])
		if f.closed {
			return mkErrno(fr, "close "+f.name+": file already closed")
		}
		f.closed = true
		return iface{}
	}
	externals["(*os.File).Write"] = func(fr *frame, a []value) value {
		f := fr.i.fileOf(a[0])
		if f.closed {
			return tuple{0, mkErrno(fr, "write "+f.name+": file already closed")}
		}
		b := a[1].([]value)
		for len(f.data) < f.pos {
			f.data = append(f.data, byte(0))
		}
		for k, x := range b {
			if f.pos+k < len(f.data) {
				f.data[f.pos+k] = x
			} else {
				f.data = append(f.data, x)
			}
		}
		f.pos += len(b)
		return tuple{len(b), iface{}}
	}
	externals["(*os.File).Read"] = func(fr *frame, a []value) value {
		f := fr.i.fileOf(a[0])
		if f.closed {
			return tuple{0, mkErrno(fr, "read "+f.name+": file already closed")}
		}
		b := a[1].([]value)
		if len(b) == 0 {
			return tuple{0, iface{}}
		}
		if f.pos >= len(f.data) {
			return tuple{0, ioEOF(fr)}
		}
		n := copy(b, f.data[f.pos:])
		f.pos += n
		return tuple{n, iface{}}
	}
	externals["(*os.File).Seek"] = func(fr *frame, a []value) value {
		f := fr.i.fileOf(a[0])
		off := int(asInt64(a[1]))
		switch asInt64(a[2]) {
		case 0:
		case 1:
			off += f.pos
		case 2:
			off += len(f.data)
		}
		if off < 0 {
			return tuple{int64(0), mkErrno(fr, "seek "+f.name+": invalid argument")}
		}
		f.pos = off
		return tuple{int64(off), iface{}}
	}
	externals["os.Remove"] = func(fr *frame, a []value) value {
		name, _ := a[0].(string)
		for _, f := range fr.i.files() {
			if f.name == name && !f.removed {
				f.removed = true
				return iface{}
			}
		}
		return mkErrno(fr, "remove "+name+": no such file or directory")
	}
	externals[vp+"IsolateTemp"] = func(fr *frame, a []value) value { return nil }
	externals[vp+"TempFilesLeft"] = func(fr *frame, a []value) value {
		n := 0
		for _, f := range fr.i.files() {
			if !f.removed {
				n++
			}
		}
		return n
	}
	_ = types.Typ
}
