package interp

// Spike: overlay byte segments with symbolic lengths/offsets.
// All index-like quantities are 64-bit terms (ints are converted).

import (
	"fmt"
	"go/types"
)

type bwrite struct {
	off *Term // destination offset in buffer
	n   *Term // length (range write); nil for single byte
	val *Term // single byte value
	src *bbuf // range write source
	ver int   // visible writes of src
	so  *Term // source offset
}

type bbuf struct {
	id     int
	writes []bwrite
	ufName string // base content is uninterpreted function (declared in solver) if non-empty
	konst  []byte // base content is this constant (else zero)
}

// bseg is a []byte value; bstr an immutable string snapshot.
type bseg struct {
	buf           *bbuf
	off, len, cap *Term
}
type bstr struct {
	buf      *bbuf
	ver      int
	off, len *Term
}

type bptr struct {
	seg bseg
	idx *Term
}

func (s *Session) newBuf() *bbuf { s.nbuf++; return &bbuf{id: s.nbuf} }

func (s *Session) i64(v value) *Term {
	switch x := v.(type) {
	case sym:
		w, signed := kindWidth(x.kind)
		if w == 64 {
			return x.t
		}
		op := "zext"
		if signed {
			op = "sext"
		}
		return s.mkP(op, 64, 64-w, 0, x.t)
	case *Term:
		return x
	}
	return s.constT(64, concUint(v))
}

func (s *Session) intVal(t *Term) value {
	if t.op == "const" {
		return int(int64(t.val))
	}
	return sym{kind: types.Int, t: t}
}

func (s *Session) add(a, b *Term) *Term { return s.mk("bvadd", 64, a, b) }
func (s *Session) sub(a, b *Term) *Term { return s.mk("bvsub", 64, a, b) }
func (s *Session) c64(v int) *Term      { return s.constT(64, uint64(v)) }

// read byte idx of buffer considering the first ver writes.
func (s *Session) bread(b *bbuf, ver int, idx *Term) *Term {
	var res *Term
	switch {
	case b.ufName != "":
		res = s.intern(&Term{op: "uf:" + b.ufName, args: []*Term{idx}, width: 8})
	case b.konst != nil:
		res = s.constT(8, 0)
		if idx.op == "const" {
			if idx.val < uint64(len(b.konst)) {
				res = s.constT(8, uint64(b.konst[idx.val]))
			}
		} else {
			for i := len(b.konst) - 1; i >= 0; i-- {
				res = s.mk("ite", 8, s.mk("=", 0, idx, s.c64(i)), s.constT(8, uint64(b.konst[i])), res)
			}
		}
	default:
		res = s.constT(8, 0)
	}
	for k := 0; k < ver; k++ {
		w := b.writes[k]
		if w.n == nil {
			res = s.mk("ite", 8, s.mk("=", 0, idx, w.off), w.val, res)
			continue
		}
		in := s.and(s.mk("bvuge", 0, idx, w.off), s.mk("bvult", 0, idx, s.add(w.off, w.n)))
		if in.op == "const" && in.val == 0 {
			continue
		}
		sv := s.bread(w.src, w.ver, s.add(s.sub(idx, w.off), w.so))
		res = s.mk("ite", 8, in, sv, res)
	}
	return res
}

func (s *Session) byteVal(t *Term) value {
	if t.op == "const" {
		return byte(t.val)
	}
	return sym{kind: types.Uint8, t: t}
}

// ---- constructors ----

func (s *Session) makeBytes(n, c *Term) bseg {
	return bseg{buf: s.newBuf(), off: s.c64(0), len: n, cap: c}
}

func (s *Session) constStr(x string) bstr {
	b := s.newBuf()
	b.konst = []byte(x)
	return bstr{buf: b, off: s.c64(0), len: s.c64(len(x))}
}

func (s *Session) asBstr(v value) bstr {
	switch x := v.(type) {
	case bstr:
		return x
	case string:
		return s.constStr(x)
	case symStr:
		b := s.newBuf()
		for i, e := range x.b {
			b.writes = append(b.writes, bwrite{off: s.c64(i), val: s.toTerm(e, types.Uint8)})
		}
		return bstr{buf: b, ver: len(b.writes), off: s.c64(0), len: s.c64(len(x.b))}
	}
	panic(fmt.Sprintf("asBstr %T", v))
}

// require cond else panic with msg (forks)
func (s *Session) require(cond *Term, msg string) {
	if cond.op == "const" {
		if cond.val == 0 {
			panic(runtimeErr(msg))
		}
		return
	}
	if !s.branch(cond) {
		panic(runtimeErr(msg))
	}
}

// ---- operations ----

func (s *Session) segSlice(x bseg, lo, hi, max value) bseg {
	l := s.c64(0)
	if lo != nil {
		l = s.i64(lo)
	}
	h := x.len
	if hi != nil {
		h = s.i64(hi)
	}
	m := x.cap
	if max != nil {
		m = s.i64(max)
	}
	// 0 <= l <= h <= m <= cap (signed compare handles negative)
	s.require(s.and(s.mk("bvsle", 0, s.c64(0), l), s.and(s.mk("bvsle", 0, l, h), s.and(s.mk("bvsle", 0, h, m), s.mk("bvsle", 0, m, x.cap)))), "slice bounds out of range")
	return bseg{buf: x.buf, off: s.add(x.off, l), len: s.sub(h, l), cap: s.sub(m, l)}
}

func (s *Session) strSlice(x bstr, lo, hi value) bstr {
	l := s.c64(0)
	if lo != nil {
		l = s.i64(lo)
	}
	h := x.len
	if hi != nil {
		h = s.i64(hi)
	}
	s.require(s.and(s.mk("bvsle", 0, s.c64(0), l), s.and(s.mk("bvsle", 0, l, h), s.mk("bvsle", 0, h, x.len))), "string slice bounds out of range")
	return bstr{buf: x.buf, ver: x.ver, off: s.add(x.off, l), len: s.sub(h, l)}
}

func (s *Session) segIndexCheck(ln *Term, idx *Term) {
	s.require(s.and(s.mk("bvsle", 0, s.c64(0), idx), s.mk("bvslt", 0, idx, ln)), "index out of range")
}

func (s *Session) min(a, b *Term) *Term { return s.mk("ite", 64, s.mk("bvslt", 0, a, b), a, b) }

// copy(dst, src) where src is bseg or bstr
func (s *Session) segCopy(dst bseg, src value) value {
	var sb *bbuf
	var ver int
	var so, sl *Term
	switch x := src.(type) {
	case bseg:
		sb, ver, so, sl = x.buf, len(x.buf.writes), x.off, x.len
	default:
		bs := s.asBstr(src)
		sb, ver, so, sl = bs.buf, bs.ver, bs.off, bs.len
	}
	n := s.min(dst.len, sl)
	if sb == dst.buf {
		// snapshot source to avoid self-reference
		snap := s.newBuf()
		snap.writes = append(snap.writes, bwrite{off: s.c64(0), n: sl, src: sb, ver: ver, so: so})
		sb, ver, so = snap, 1, s.c64(0)
	}
	dst.buf.writes = append(dst.buf.writes, bwrite{off: dst.off, n: n, src: sb, ver: ver, so: so})
	return s.intVal(n)
}

func (s *Session) segToStr(x bseg) bstr {
	// snapshot
	snap := s.newBuf()
	snap.writes = append(snap.writes, bwrite{off: s.c64(0), n: x.len, src: x.buf, ver: len(x.buf.writes), so: x.off})
	return bstr{buf: snap, ver: 1, off: s.c64(0), len: x.len}
}

func (s *Session) strToSeg(x bstr) bseg {
	b := s.newBuf()
	b.writes = append(b.writes, bwrite{off: s.c64(0), n: x.len, src: x.buf, ver: x.ver, so: x.off})
	return bseg{buf: b, off: s.c64(0), len: x.len, cap: x.len}
}

func (s *Session) strConcat(a, b bstr) bstr {
	nb := s.newBuf()
	nb.writes = append(nb.writes, bwrite{off: s.c64(0), n: a.len, src: a.buf, ver: a.ver, so: a.off})
	nb.writes = append(nb.writes, bwrite{off: a.len, n: b.len, src: b.buf, ver: b.ver, so: b.off})
	return bstr{buf: nb, ver: 2, off: s.c64(0), len: s.add(a.len, b.len)}
}

// bytesEqTerm: (la == lb) && forall k < la: a[k]==b[k]; usable only negated (skolem k).
func (s *Session) strNeqWitness(a, b bstr) *Term {
	k := s.newVar("k", 64)
	inr := s.mk("bvult", 0, k, a.len)
	diff := s.not(s.mk("=", 0, s.bread(a.buf, a.ver, s.add(a.off, k)), s.bread(b.buf, b.ver, s.add(b.off, k))))
	return s.or(s.not(s.mk("=", 0, a.len, b.len)), s.and(inr, diff))
}
