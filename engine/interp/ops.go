// Copyright 2013 The Go Authors. All rights reserved.
// Use of this source code is governed by a BSD-style
// license that can be found in the LICENSE file.

package interp

import (
	"unicode/utf8"
	"sort"
	"bytes"
	"fmt"
	"go/constant"
	"go/token"
	"go/types"
	"os"
	"strings"
	"unsafe"

	"golang.org/x/tools/go/ssa"
	typeparams "gosym/interp/tp"
)

// If the target program panics, the interpreter panics with this type.
type targetPanic struct {
	v value
}

func (p targetPanic) String() string {
	return toString(p.v)
}

// If the target program calls exit, the interpreter panics with this type.
type exitPanic int

// constValue returns the value of the constant with the
// dynamic type tag appropriate for c.Type().
func constValue(c *ssa.Const) value {
	if c.Value == nil {
		return zero(c.Type()) // typed zero
	}
	// c is not a type parameter so it's underlying type is basic.

	if t, ok := c.Type().Underlying().(*types.Basic); ok {
		// TODO(adonovan): eliminate untyped constants from SSA form.
		switch t.Kind() {
		case types.Bool, types.UntypedBool:
			return constant.BoolVal(c.Value)
		case types.Int, types.UntypedInt:
			// Assume sizeof(int) is same on host and target.
			return int(c.Int64())
		case types.Int8:
			return int8(c.Int64())
		case types.Int16:
			return int16(c.Int64())
		case types.Int32, types.UntypedRune:
			return int32(c.Int64())
		case types.Int64:
			return c.Int64()
		case types.Uint:
			// Assume sizeof(uint) is same on host and target.
			return uint(c.Uint64())
		case types.Uint8:
			return uint8(c.Uint64())
		case types.Uint16:
			return uint16(c.Uint64())
		case types.Uint32:
			return uint32(c.Uint64())
		case types.Uint64:
			return c.Uint64()
		case types.Uintptr:
			// Assume sizeof(uintptr) is same on host and target.
			return uintptr(c.Uint64())
		case types.Float32:
			return float32(c.Float64())
		case types.Float64, types.UntypedFloat:
			return c.Float64()
		case types.Complex64:
			return complex64(c.Complex128())
		case types.Complex128, types.UntypedComplex:
			return c.Complex128()
		case types.String, types.UntypedString:
			if c.Value.Kind() == constant.String {
				return constant.StringVal(c.Value)
			}
			return string(rune(c.Int64()))
		}
	}

	panic(fmt.Sprintf("constValue: %s", c))
}

// fitsInt returns true if x fits in type int according to sizes.
func fitsInt(x int64, sizes types.Sizes) bool {
	intSize := sizes.Sizeof(types.Typ[types.Int])
	if intSize < sizes.Sizeof(types.Typ[types.Int64]) {
		maxInt := int64(1)<<((intSize*8)-1) - 1
		minInt := -int64(1) << ((intSize * 8) - 1)
		return minInt <= x && x <= maxInt
	}
	return true
}

// asInt64 converts x, which must be an integer, to an int64.
//
// Callers that need a value directly usable as an int should combine this with fitsInt().
func asInt64(x value) int64 {
	if sx, ok := x.(sym); ok {
		v := sx.t.s.concretize(sx.t)
		w, signed := kindWidth(sx.kind)
		if signed && w < 64 && v&(1<<(w-1)) != 0 {
			v |= ^mask(w)
		}
		return int64(v)
	}
	switch x := x.(type) {
	case int:
		return int64(x)
	case int8:
		return int64(x)
	case int16:
		return int64(x)
	case int32:
		return int64(x)
	case int64:
		return x
	case uint:
		return int64(x)
	case uint8:
		return int64(x)
	case uint16:
		return int64(x)
	case uint32:
		return int64(x)
	case uint64:
		return int64(x)
	case uintptr:
		return int64(x)
	}
	panic(fmt.Sprintf("cannot convert %T to int64", x))
}

// asUint64 converts x, which must be an unsigned integer, to a uint64
// suitable for use as a bitwise shift count.
func asUint64(x value) uint64 {
	if sx, ok := x.(sym); ok {
		return sx.t.s.concretize(sx.t)
	}
	switch x := x.(type) {
	case uint:
		return uint64(x)
	case uint8:
		return uint64(x)
	case uint16:
		return uint64(x)
	case uint32:
		return uint64(x)
	case uint64:
		return x
	case uintptr:
		return uint64(x)
	}
	panic(fmt.Sprintf("cannot convert %T to uint64", x))
}

// asUnsigned returns the value of x, which must be an integer type, as its equivalent unsigned type,
// and returns true if x is non-negative.
func asUnsigned(x value) (value, bool) {
	switch x := x.(type) {
	case int:
		return uint(x), x >= 0
	case int8:
		return uint8(x), x >= 0
	case int16:
		return uint16(x), x >= 0
	case int32:
		return uint32(x), x >= 0
	case int64:
		return uint64(x), x >= 0
	case uint, uint8, uint32, uint64, uintptr:
		return x, true
	}
	panic(fmt.Sprintf("cannot convert %T to unsigned", x))
}

// zero returns a new "zero" value of the specified type.
func zero(t types.Type) value {
	switch t := t.(type) {
	case *types.Basic:
		if t.Kind() == types.UntypedNil {
			panic("untyped nil has no zero value")
		}
		if t.Info()&types.IsUntyped != 0 {
			// TODO(adonovan): make it an invariant that
			// this is unreachable.  Currently some
			// constants have 'untyped' types when they
			// should be defaulted by the typechecker.
			t = types.Default(t).(*types.Basic)
		}
		switch t.Kind() {
		case types.Bool:
			return false
		case types.Int:
			return int(0)
		case types.Int8:
			return int8(0)
		case types.Int16:
			return int16(0)
		case types.Int32:
			return int32(0)
		case types.Int64:
			return int64(0)
		case types.Uint:
			return uint(0)
		case types.Uint8:
			return uint8(0)
		case types.Uint16:
			return uint16(0)
		case types.Uint32:
			return uint32(0)
		case types.Uint64:
			return uint64(0)
		case types.Uintptr:
			return uintptr(0)
		case types.Float32:
			return float32(0)
		case types.Float64:
			return float64(0)
		case types.Complex64:
			return complex64(0)
		case types.Complex128:
			return complex128(0)
		case types.String:
			return ""
		case types.UnsafePointer:
			return unsafe.Pointer(nil)
		default:
			panic(fmt.Sprint("zero for unexpected type:", t))
		}
	case *types.Pointer:
		return (*value)(nil)
	case *types.Array:
		a := make(array, t.Len())
		for i := range a {
			a[i] = zero(t.Elem())
		}
		return a
	case *types.Named:
		return zero(t.Underlying())
	case *types.Alias:
		return zero(types.Unalias(t))
	case *types.Interface:
		return iface{} // nil type, methodset and value
	case *types.Slice:
		return []value(nil)
	case *types.Struct:
		s := make(structure, t.NumFields())
		for i := range s {
			s[i] = zero(t.Field(i).Type())
		}
		return s
	case *types.Tuple:
		if t.Len() == 1 {
			return zero(t.At(0).Type())
		}
		s := make(tuple, t.Len())
		for i := range s {
			s[i] = zero(t.At(i).Type())
		}
		return s
	case *types.Chan:
		return (*gchan)(nil)
	case *types.Map:
		if usesBuiltinMap(t.Key()) {
			return map[value]value(nil)
		}
		return (*hashmap)(nil)
	case *types.Signature:
		return (*ssa.Function)(nil)
	}
	panic(fmt.Sprint("zero: unexpected ", t))
}

// slice returns x[lo:hi:max].  Any of lo, hi and max may be nil.
func slice(x, lo, hi, max value) value {
	switch sx := x.(type) {
	case bseg:
		return sx.len.s.segSlice(sx, lo, hi, max)
	case bstr:
		return sx.len.s.strSlice(sx, lo, hi)
	}
	var Len, Cap int
	switch x := x.(type) {
	case string:
		Len = len(x)
	case symStr:
		Len = len(x.b)
	case []value:
		Len = len(x)
		Cap = cap(x)
	case *value: // *array
		a := (*x).(array)
		Len = len(a)
		Cap = cap(a)
	}

	l := int64(0)
	if lo != nil {
		l = asInt64(lo)
	}

	h := int64(Len)
	if hi != nil {
		h = asInt64(hi)
	}

	m := int64(Cap)
	if max != nil {
		m = asInt64(max)
	}

	switch x := x.(type) {
	case string:
		return x[l:h]
	case symStr:
		return mkStr(x.b[l:h])
	case []value:
		return x[l:h:m]
	case *value: // *array
		a := (*x).(array)
		return []value(a)[l:h:m]
	}
	panic(fmt.Sprintf("slice: unexpected X type: %T", x))
}

// lookup returns x[idx] where x is a map.
func lookup(instr *ssa.Lookup, x, idx value) value {
	switch x := x.(type) { // map or string
	case map[value]value, *hashmap:
		var v value
		var ok bool
		switch x := x.(type) {
		case map[value]value:
			v, ok = x[idx]
		case *hashmap:
			v = x.lookup(idx.(hashable))
			ok = v != nil
		}
		if !ok {
			v = zero(instr.X.Type().Underlying().(*types.Map).Elem())
		}
		if instr.CommaOk {
			v = tuple{v, ok}
		}
		return v
	}
	panic(fmt.Sprintf("unexpected x type in Lookup: %T", x))
}

// binop implements all arithmetic and logical binary operators for
// numeric datatypes and strings.  Both operands must have identical
// dynamic type.
func binop(op token.Token, t types.Type, x, y value) value {
	if isSym(x) || isSym(y) {
		return symBinop(op, t, x, y)
	}
	_, xb := x.(bstr)
	_, yb := y.(bstr)
	if xb || yb {
		if op == token.ADD {
			cur := sessOf(x, y)
			return cur.strConcat(cur.asBstr(x), cur.asBstr(y))
		}
		panic(unsupported{"comparison of symbolic-length strings as a branch condition"})
	}
	if _, ok := x.(symStr); ok {
		return symStrBinop(op, x, y)
	}
	if _, ok := y.(symStr); ok {
		return symStrBinop(op, x, y)
	}
	if f, ok := x.(symFloat); ok {
		if c, ok := y.(float64); ok {
			if op == token.ADD && c == 1 && f.stage == "log2" {
				return symFloat{stage: "log2p1", src: f.src}
			}
			if op == token.QUO && f.stage == "u2f" && c >= 1 && c == float64(uint64(c)) && c < 1<<20 {
				return symFloat{stage: "div", src: f.src, den: uint64(c)}
			}
		}
		panic(unsupported{"float operation on a symbolic value: " + op.String()})
	}
	if _, ok := y.(symFloat); ok {
		panic(unsupported{"float operation on a symbolic value: " + op.String()})
	}
	switch op {
	case token.ADD:
		switch x.(type) {
		case int:
			return x.(int) + y.(int)
		case int8:
			return x.(int8) + y.(int8)
		case int16:
			return x.(int16) + y.(int16)
		case int32:
			return x.(int32) + y.(int32)
		case int64:
			return x.(int64) + y.(int64)
		case uint:
			return x.(uint) + y.(uint)
		case uint8:
			return x.(uint8) + y.(uint8)
		case uint16:
			return x.(uint16) + y.(uint16)
		case uint32:
			return x.(uint32) + y.(uint32)
		case uint64:
			return x.(uint64) + y.(uint64)
		case uintptr:
			return x.(uintptr) + y.(uintptr)
		case float32:
			return x.(float32) + y.(float32)
		case float64:
			return x.(float64) + y.(float64)
		case complex64:
			return x.(complex64) + y.(complex64)
		case complex128:
			return x.(complex128) + y.(complex128)
		case string:
			return x.(string) + y.(string)
		}

	case token.SUB:
		switch x.(type) {
		case int:
			return x.(int) - y.(int)
		case int8:
			return x.(int8) - y.(int8)
		case int16:
			return x.(int16) - y.(int16)
		case int32:
			return x.(int32) - y.(int32)
		case int64:
			return x.(int64) - y.(int64)
		case uint:
			return x.(uint) - y.(uint)
		case uint8:
			return x.(uint8) - y.(uint8)
		case uint16:
			return x.(uint16) - y.(uint16)
		case uint32:
			return x.(uint32) - y.(uint32)
		case uint64:
			return x.(uint64) - y.(uint64)
		case uintptr:
			return x.(uintptr) - y.(uintptr)
		case float32:
			return x.(float32) - y.(float32)
		case float64:
			return x.(float64) - y.(float64)
		case complex64:
			return x.(complex64) - y.(complex64)
		case complex128:
			return x.(complex128) - y.(complex128)
		}

	case token.MUL:
		switch x.(type) {
		case int:
			return x.(int) * y.(int)
		case int8:
			return x.(int8) * y.(int8)
		case int16:
			return x.(int16) * y.(int16)
		case int32:
			return x.(int32) * y.(int32)
		case int64:
			return x.(int64) * y.(int64)
		case uint:
			return x.(uint) * y.(uint)
		case uint8:
			return x.(uint8) * y.(uint8)
		case uint16:
			return x.(uint16) * y.(uint16)
		case uint32:
			return x.(uint32) * y.(uint32)
		case uint64:
			return x.(uint64) * y.(uint64)
		case uintptr:
			return x.(uintptr) * y.(uintptr)
		case float32:
			return x.(float32) * y.(float32)
		case float64:
			return x.(float64) * y.(float64)
		case complex64:
			return x.(complex64) * y.(complex64)
		case complex128:
			return x.(complex128) * y.(complex128)
		}

	case token.QUO:
		switch x.(type) {
		case int:
			return x.(int) / y.(int)
		case int8:
			return x.(int8) / y.(int8)
		case int16:
			return x.(int16) / y.(int16)
		case int32:
			return x.(int32) / y.(int32)
		case int64:
			return x.(int64) / y.(int64)
		case uint:
			return x.(uint) / y.(uint)
		case uint8:
			return x.(uint8) / y.(uint8)
		case uint16:
			return x.(uint16) / y.(uint16)
		case uint32:
			return x.(uint32) / y.(uint32)
		case uint64:
			return x.(uint64) / y.(uint64)
		case uintptr:
			return x.(uintptr) / y.(uintptr)
		case float32:
			return x.(float32) / y.(float32)
		case float64:
			return x.(float64) / y.(float64)
		case complex64:
			return x.(complex64) / y.(complex64)
		case complex128:
			return x.(complex128) / y.(complex128)
		}

	case token.REM:
		switch x.(type) {
		case int:
			return x.(int) % y.(int)
		case int8:
			return x.(int8) % y.(int8)
		case int16:
			return x.(int16) % y.(int16)
		case int32:
			return x.(int32) % y.(int32)
		case int64:
			return x.(int64) % y.(int64)
		case uint:
			return x.(uint) % y.(uint)
		case uint8:
			return x.(uint8) % y.(uint8)
		case uint16:
			return x.(uint16) % y.(uint16)
		case uint32:
			return x.(uint32) % y.(uint32)
		case uint64:
			return x.(uint64) % y.(uint64)
		case uintptr:
			return x.(uintptr) % y.(uintptr)
		}

	case token.AND:
		switch x.(type) {
		case int:
			return x.(int) & y.(int)
		case int8:
			return x.(int8) & y.(int8)
		case int16:
			return x.(int16) & y.(int16)
		case int32:
			return x.(int32) & y.(int32)
		case int64:
			return x.(int64) & y.(int64)
		case uint:
			return x.(uint) & y.(uint)
		case uint8:
			return x.(uint8) & y.(uint8)
		case uint16:
			return x.(uint16) & y.(uint16)
		case uint32:
			return x.(uint32) & y.(uint32)
		case uint64:
			return x.(uint64) & y.(uint64)
		case uintptr:
			return x.(uintptr) & y.(uintptr)
		}

	case token.OR:
		switch x.(type) {
		case int:
			return x.(int) | y.(int)
		case int8:
			return x.(int8) | y.(int8)
		case int16:
			return x.(int16) | y.(int16)
		case int32:
			return x.(int32) | y.(int32)
		case int64:
			return x.(int64) | y.(int64)
		case uint:
			return x.(uint) | y.(uint)
		case uint8:
			return x.(uint8) | y.(uint8)
		case uint16:
			return x.(uint16) | y.(uint16)
		case uint32:
			return x.(uint32) | y.(uint32)
		case uint64:
			return x.(uint64) | y.(uint64)
		case uintptr:
			return x.(uintptr) | y.(uintptr)
		}

	case token.XOR:
		switch x.(type) {
		case int:
			return x.(int) ^ y.(int)
		case int8:
			return x.(int8) ^ y.(int8)
		case int16:
			return x.(int16) ^ y.(int16)
		case int32:
			return x.(int32) ^ y.(int32)
		case int64:
			return x.(int64) ^ y.(int64)
		case uint:
			return x.(uint) ^ y.(uint)
		case uint8:
			return x.(uint8) ^ y.(uint8)
		case uint16:
			return x.(uint16) ^ y.(uint16)
		case uint32:
			return x.(uint32) ^ y.(uint32)
		case uint64:
			return x.(uint64) ^ y.(uint64)
		case uintptr:
			return x.(uintptr) ^ y.(uintptr)
		}

	case token.AND_NOT:
		switch x.(type) {
		case int:
			return x.(int) &^ y.(int)
		case int8:
			return x.(int8) &^ y.(int8)
		case int16:
			return x.(int16) &^ y.(int16)
		case int32:
			return x.(int32) &^ y.(int32)
		case int64:
			return x.(int64) &^ y.(int64)
		case uint:
			return x.(uint) &^ y.(uint)
		case uint8:
			return x.(uint8) &^ y.(uint8)
		case uint16:
			return x.(uint16) &^ y.(uint16)
		case uint32:
			return x.(uint32) &^ y.(uint32)
		case uint64:
			return x.(uint64) &^ y.(uint64)
		case uintptr:
			return x.(uintptr) &^ y.(uintptr)
		}

	case token.SHL:
		u, ok := asUnsigned(y)
		if !ok {
			panic("negative shift amount")
		}
		y := asUint64(u)
		switch x.(type) {
		case int:
			return x.(int) << y
		case int8:
			return x.(int8) << y
		case int16:
			return x.(int16) << y
		case int32:
			return x.(int32) << y
		case int64:
			return x.(int64) << y
		case uint:
			return x.(uint) << y
		case uint8:
			return x.(uint8) << y
		case uint16:
			return x.(uint16) << y
		case uint32:
			return x.(uint32) << y
		case uint64:
			return x.(uint64) << y
		case uintptr:
			return x.(uintptr) << y
		}

	case token.SHR:
		u, ok := asUnsigned(y)
		if !ok {
			panic("negative shift amount")
		}
		y := asUint64(u)
		switch x.(type) {
		case int:
			return x.(int) >> y
		case int8:
			return x.(int8) >> y
		case int16:
			return x.(int16) >> y
		case int32:
			return x.(int32) >> y
		case int64:
			return x.(int64) >> y
		case uint:
			return x.(uint) >> y
		case uint8:
			return x.(uint8) >> y
		case uint16:
			return x.(uint16) >> y
		case uint32:
			return x.(uint32) >> y
		case uint64:
			return x.(uint64) >> y
		case uintptr:
			return x.(uintptr) >> y
		}

	case token.LSS:
		switch x.(type) {
		case int:
			return x.(int) < y.(int)
		case int8:
			return x.(int8) < y.(int8)
		case int16:
			return x.(int16) < y.(int16)
		case int32:
			return x.(int32) < y.(int32)
		case int64:
			return x.(int64) < y.(int64)
		case uint:
			return x.(uint) < y.(uint)
		case uint8:
			return x.(uint8) < y.(uint8)
		case uint16:
			return x.(uint16) < y.(uint16)
		case uint32:
			return x.(uint32) < y.(uint32)
		case uint64:
			return x.(uint64) < y.(uint64)
		case uintptr:
			return x.(uintptr) < y.(uintptr)
		case float32:
			return x.(float32) < y.(float32)
		case float64:
			return x.(float64) < y.(float64)
		case string:
			return x.(string) < y.(string)
		}

	case token.LEQ:
		switch x.(type) {
		case int:
			return x.(int) <= y.(int)
		case int8:
			return x.(int8) <= y.(int8)
		case int16:
			return x.(int16) <= y.(int16)
		case int32:
			return x.(int32) <= y.(int32)
		case int64:
			return x.(int64) <= y.(int64)
		case uint:
			return x.(uint) <= y.(uint)
		case uint8:
			return x.(uint8) <= y.(uint8)
		case uint16:
			return x.(uint16) <= y.(uint16)
		case uint32:
			return x.(uint32) <= y.(uint32)
		case uint64:
			return x.(uint64) <= y.(uint64)
		case uintptr:
			return x.(uintptr) <= y.(uintptr)
		case float32:
			return x.(float32) <= y.(float32)
		case float64:
			return x.(float64) <= y.(float64)
		case string:
			return x.(string) <= y.(string)
		}

	case token.EQL:
		return eqnil(t, x, y)

	case token.NEQ:
		return !eqnil(t, x, y)

	case token.GTR:
		switch x.(type) {
		case int:
			return x.(int) > y.(int)
		case int8:
			return x.(int8) > y.(int8)
		case int16:
			return x.(int16) > y.(int16)
		case int32:
			return x.(int32) > y.(int32)
		case int64:
			return x.(int64) > y.(int64)
		case uint:
			return x.(uint) > y.(uint)
		case uint8:
			return x.(uint8) > y.(uint8)
		case uint16:
			return x.(uint16) > y.(uint16)
		case uint32:
			return x.(uint32) > y.(uint32)
		case uint64:
			return x.(uint64) > y.(uint64)
		case uintptr:
			return x.(uintptr) > y.(uintptr)
		case float32:
			return x.(float32) > y.(float32)
		case float64:
			return x.(float64) > y.(float64)
		case string:
			return x.(string) > y.(string)
		}

	case token.GEQ:
		switch x.(type) {
		case int:
			return x.(int) >= y.(int)
		case int8:
			return x.(int8) >= y.(int8)
		case int16:
			return x.(int16) >= y.(int16)
		case int32:
			return x.(int32) >= y.(int32)
		case int64:
			return x.(int64) >= y.(int64)
		case uint:
			return x.(uint) >= y.(uint)
		case uint8:
			return x.(uint8) >= y.(uint8)
		case uint16:
			return x.(uint16) >= y.(uint16)
		case uint32:
			return x.(uint32) >= y.(uint32)
		case uint64:
			return x.(uint64) >= y.(uint64)
		case uintptr:
			return x.(uintptr) >= y.(uintptr)
		case float32:
			return x.(float32) >= y.(float32)
		case float64:
			return x.(float64) >= y.(float64)
		case string:
			return x.(string) >= y.(string)
		}
	}
	panic(fmt.Sprintf("invalid binary op: %T %s %T", x, op, y))
}

// eqnil returns the comparison x == y using the equivalence relation
// appropriate for type t.
// If t is a reference type, at most one of x or y may be a nil value
// of that type.
func eqnil(t types.Type, x, y value) bool {
	switch t.Underlying().(type) {
	case *types.Map, *types.Signature, *types.Slice:
		// Since these types don't support comparison,
		// one of the operands must be a literal nil.
		switch x := x.(type) {
		case *hashmap:
			return (x != nil) == (y.(*hashmap) != nil)
		case map[value]value:
			return (x != nil) == (y.(map[value]value) != nil)
		case *ssa.Function:
			switch y := y.(type) {
			case *ssa.Function:
				return (x != nil) == (y != nil)
			case *closure:
				return true
			}
		case *closure:
			return (x != nil) == (y.(*ssa.Function) != nil)
		case []value:
			return (x != nil) == (y.([]value) != nil)
		}
		panic(fmt.Sprintf("eqnil(%s): illegal dynamic type: %T", t, x))
	}

	return equals(t, x, y)
}

func unop(fr *frame, instr *ssa.UnOp, x value) value {
	if sx, ok := x.(sym); ok {
		return symUnop(instr.Op, sx)
	}
	if bp, ok := x.(bptr); ok && instr.Op == token.MUL {
		cur := bp.idx.s
		return cur.byteVal(cur.bread(bp.seg.buf, len(bp.seg.buf.writes), cur.add(bp.seg.off, bp.idx)))
	}
	if instr.Op == token.MUL && fr.i.evlog != nil {
		if p, ok := x.(*value); ok {
			fr.i.recordAccess(fr, p, false, instr.Pos(), instr.X)
		}
	}
	switch instr.Op {
	case token.ARROW: // receive
		v, ok := fr.i.chanRecv(x.(*gchan))
		if !ok {
			v = zero(instr.X.Type().Underlying().(*types.Chan).Elem())
		}
		if instr.CommaOk {
			v = tuple{v, ok}
		}
		return v
	case token.SUB:
		switch x := x.(type) {
		case int:
			return -x
		case int8:
			return -x
		case int16:
			return -x
		case int32:
			return -x
		case int64:
			return -x
		case uint:
			return -x
		case uint8:
			return -x
		case uint16:
			return -x
		case uint32:
			return -x
		case uint64:
			return -x
		case uintptr:
			return -x
		case float32:
			return -x
		case float64:
			return -x
		case complex64:
			return -x
		case complex128:
			return -x
		}
	case token.MUL:
		return load(typeparams.MustDeref(instr.X.Type()), x.(*value))
	case token.NOT:
		return !x.(bool)
	case token.XOR:
		switch x := x.(type) {
		case int:
			return ^x
		case int8:
			return ^x
		case int16:
			return ^x
		case int32:
			return ^x
		case int64:
			return ^x
		case uint:
			return ^x
		case uint8:
			return ^x
		case uint16:
			return ^x
		case uint32:
			return ^x
		case uint64:
			return ^x
		case uintptr:
			return ^x
		}
	}
	panic(fmt.Sprintf("invalid unary op %s %T", instr.Op, x))
}

// typeAssert checks whether dynamic type of itf is instr.AssertedType.
// It returns the extracted value on success, and panics on failure,
// unless instr.CommaOk, in which case it always returns a "value,ok" tuple.
func typeAssert(i *interpreter, instr *ssa.TypeAssert, itf iface) value {
	var v value
	err := ""
	if itf.t == nil {
		err = fmt.Sprintf("interface conversion: interface is nil, not %s", instr.AssertedType)

	} else if idst, ok := instr.AssertedType.Underlying().(*types.Interface); ok {
		v = itf
		err = checkInterface(i, idst, itf)

	} else if types.Identical(itf.t, instr.AssertedType) {
		v = itf.v // extract value

	} else {
		err = fmt.Sprintf("interface conversion: interface is %s, not %s", itf.t, instr.AssertedType)
	}
	// Note: if instr.Underlying==true ever becomes reachable from interp check that
	// types.Identical(itf.t.Underlying(), instr.AssertedType)

	if err != "" {
		if !instr.CommaOk {
			panic(err)
		}
		return tuple{zero(instr.AssertedType), false}
	}
	if instr.CommaOk {
		return tuple{v, true}
	}
	return v
}

// This variable is no longer used but remains to prevent build breakage.
var CapturedOutput *bytes.Buffer

// callBuiltin interprets a call to builtin fn with arguments args,
// returning its result.
func callBuiltin(caller *frame, callpos token.Pos, fn *ssa.Builtin, args []value) value {
	switch fn.Name() {
	case "append":
		if len(args) == 1 {
			return args[0]
		}
		if ss, ok := args[1].(symStr); ok {
			return append(args[0].([]value), ss.b...)
		}
		if s, ok := args[1].(string); ok {
			// append([]byte, ...string) []byte
			arg0 := args[0].([]value)
			for i := 0; i < len(s); i++ {
				arg0 = append(arg0, s[i])
			}
			return arg0
		}
		// append([]T, ...[]T) []T
		old := args[0].([]value)
		res := append(old, args[1].([]value)...)
		aelem := fn.Type().(*types.Signature).Params().At(0).Type().Underlying().(*types.Slice).Elem()
		switch aelem.Underlying().(type) {
		case *types.Struct, *types.Array:
			// aggregates have value semantics: the appended elements are copies, not
			// aliases of the source elements
			for k := len(old); k < len(res); k++ {
				res[k] = load(aelem, &res[k])
			}
		}
		if cap(res) != cap(old) {
			// fresh backing array: zero-fill the spare capacity like the Go runtime does
			elem := fn.Type().(*types.Signature).Params().At(0).Type().Underlying().(*types.Slice).Elem()
			full := res[:cap(res)]
			for i := len(res); i < len(full); i++ {
				full[i] = zero(elem)
			}
		}
		return res

	case "copy": // copy([]T, []T) int or copy([]byte, string) int
		if d, ok := args[0].(bseg); ok {
			return d.len.s.segCopy(d, args[1])
		}
		src := args[1]
		if ss, ok := src.(symStr); ok {
			return copy(args[0].([]value), ss.b)
		}
		if _, ok := src.(string); ok {
			params := fn.Type().(*types.Signature).Params()
			src = conv(params.At(0).Type(), params.At(1).Type(), src)
		}
		dst := args[0].([]value)
		n := copy(dst, src.([]value))
		if st, ok := fn.Type().(*types.Signature).Params().At(0).Type().Underlying().(*types.Slice); ok {
			switch st.Elem().Underlying().(type) {
			case *types.Struct, *types.Array:
				for k := 0; k < n; k++ {
					dst[k] = load(st.Elem(), &dst[k])
				}
			}
		}
		return n

	case "close": // close(chan T)
		caller.i.chanClose(args[0].(*gchan))
		return nil

	case "delete": // delete(map[K]value, K)
		switch m := args[0].(type) {
		case map[value]value:
			delete(m, args[1])
		case *hashmap:
			m.delete(args[1].(hashable))
		default:
			panic(fmt.Sprintf("illegal map type: %T", m))
		}
		return nil

	case "print", "println": // print(any, ...)
		ln := fn.Name() == "println"
		var buf bytes.Buffer
		for i, arg := range args {
			if i > 0 && ln {
				buf.WriteRune(' ')
			}
			buf.WriteString(toString(arg))
		}
		if ln {
			buf.WriteRune('\n')
		}
		os.Stderr.Write(buf.Bytes())
		return nil

	case "len":
		switch x := args[0].(type) {
		case bseg:
			return x.len.s.intVal(x.len)
		case bstr:
			return x.len.s.intVal(x.len)
		case string:
			return len(x)
		case symStr:
			return len(x.b)
		case array:
			return len(x)
		case *value:
			return len((*x).(array))
		case []value:
			return len(x)
		case map[value]value:
			return len(x)
		case *hashmap:
			return x.len()
		case *gchan:
			return len(x.buf)
		default:
			panic(fmt.Sprintf("len: illegal operand: %T", x))
		}

	case "cap":
		switch x := args[0].(type) {
		case bseg:
			return x.len.s.intVal(x.cap)
		case array:
			return cap(x)
		case *value:
			return cap((*x).(array))
		case []value:
			return cap(x)
		case *gchan:
			return x.cap
		default:
			panic(fmt.Sprintf("cap: illegal operand: %T", x))
		}

	case "min":
		return foldLeft(min, args)
	case "max":
		return foldLeft(max, args)

	case "real":
		switch c := args[0].(type) {
		case complex64:
			return real(c)
		case complex128:
			return real(c)
		default:
			panic(fmt.Sprintf("real: illegal operand: %T", c))
		}

	case "imag":
		switch c := args[0].(type) {
		case complex64:
			return imag(c)
		case complex128:
			return imag(c)
		default:
			panic(fmt.Sprintf("imag: illegal operand: %T", c))
		}

	case "complex":
		switch f := args[0].(type) {
		case float32:
			return complex(f, args[1].(float32))
		case float64:
			return complex(f, args[1].(float64))
		default:
			panic(fmt.Sprintf("complex: illegal operand: %T", f))
		}

	case "panic":
		// ssa.Panic handles most cases; this is only for "go
		// panic" or "defer panic".
		panic(targetPanic{args[0]})

	case "recover":
		return doRecover(caller)

	case "ssa:wrapnilchk":
		recv := args[0]
		if recv.(*value) == nil {
			recvType := args[1]
			methodName := args[2]
			panic(fmt.Sprintf("value method (%s).%s called using nil *%s pointer",
				recvType, methodName, recvType))
		}
		return recv

	case "ssa:deferstack":
		return &caller.defers
	}

	panic("unknown built-in: " + fn.Name())
}

func rangeIter(fr *frame, x value, t types.Type) iter {
	switch x := x.(type) {
	case map[value]value:
		it := &snapIter{m: x}
		for k := range x {
			it.keys = append(it.keys, k)
		}
		it.order(fr)
		return it
	case *hashmap:
		it := &snapIter{h: x}
		for _, e := range x.entries() {
			for ; e != nil; e = e.next {
				it.keys = append(it.keys, e.key)
			}
		}
		it.order(fr)
		return it
	case symStr:
		return &symStrIter{fr: fr, s: x}
	case string:
		return &stringIter{Reader: strings.NewReader(x)}
	}
	panic(fmt.Sprintf("cannot range over %T", x))
}

// widen widens a basic typed value x to the widest type of its
// category, one of:
//
//	bool, int64, uint64, float64, complex128, string.
//
// This is inefficient but reduces the size of the cross-product of
// cases we have to consider.
func widen(x value) value {
	switch y := x.(type) {
	case bool, int64, uint64, float64, complex128, string, unsafe.Pointer:
		return x
	case int:
		return int64(y)
	case int8:
		return int64(y)
	case int16:
		return int64(y)
	case int32:
		return int64(y)
	case uint:
		return uint64(y)
	case uint8:
		return uint64(y)
	case uint16:
		return uint64(y)
	case uint32:
		return uint64(y)
	case uintptr:
		return uint64(y)
	case float32:
		return float64(y)
	case complex64:
		return complex128(y)
	}
	panic(fmt.Sprintf("cannot widen %T", x))
}

// conv converts the value x of type t_src to type t_dst and returns
// the result.
// Possible cases are described with the ssa.Convert operator.
func conv(t_dst, t_src types.Type, x value) value {
	if sx, ok := x.(sym); ok {
		return symConv(t_dst, sx)
	}
	if fx, ok := x.(symFloat); ok {
		return symFloatToInt(fx, basicKind(t_dst))
	}
	if sx, ok := x.(bseg); ok {
		return sx.len.s.segToStr(sx)
	}
	if sx, ok := x.(bstr); ok {
		if _, ok := t_dst.Underlying().(*types.Slice); ok {
			return sx.len.s.strToSeg(sx)
		}
		return sx
	}
	if sx, ok := x.(symStr); ok {
		if _, ok := t_dst.Underlying().(*types.Slice); ok {
			c := make([]value, len(sx.b))
			copy(c, sx.b)
			return c
		}
		return sx
	}
	ut_src := t_src.Underlying()
	ut_dst := t_dst.Underlying()

	// Destination type is not an "untyped" type.
	if b, ok := ut_dst.(*types.Basic); ok && b.Info()&types.IsUntyped != 0 {
		panic("oops: conversion to 'untyped' type: " + b.String())
	}

	// Nor is it an interface type.
	if _, ok := ut_dst.(*types.Interface); ok {
		if _, ok := ut_src.(*types.Interface); ok {
			panic("oops: Convert should be ChangeInterface")
		} else {
			panic("oops: Convert should be MakeInterface")
		}
	}

	// Remaining conversions:
	//    + untyped string/number/bool constant to a specific
	//      representation.
	//    + conversions between non-complex numeric types.
	//    + conversions between complex numeric types.
	//    + integer/[]byte/[]rune -> string.
	//    + string -> []byte/[]rune.
	//
	// All are treated the same: first we extract the value to the
	// widest representation (int64, uint64, float64, complex128,
	// or string), then we convert it to the desired type.

	switch ut_src := ut_src.(type) {
	case *types.Pointer:
		switch ut_dst := ut_dst.(type) {
		case *types.Basic:
			// *value to unsafe.Pointer?
			if ut_dst.Kind() == types.UnsafePointer {
				return unsafe.Pointer(x.(*value))
			}
		}

	case *types.Slice:
		// []byte or []rune -> string
		switch ut_src.Elem().Underlying().(*types.Basic).Kind() {
		case types.Byte:
			x := x.([]value)
			return mkStr(x)

		case types.Rune:
			x := x.([]value)
			r := make([]rune, 0, len(x))
			for i := range x {
				r = append(r, x[i].(rune))
			}
			return string(r)
		}

	case *types.Basic:
		x = widen(x)

		// integer -> string?
		if ut_src.Info()&types.IsInteger != 0 {
			if ut_dst, ok := ut_dst.(*types.Basic); ok && ut_dst.Kind() == types.String {
				return fmt.Sprintf("%c", x)
			}
		}

		// string -> []rune, []byte or string?
		if s, ok := x.(string); ok {
			switch ut_dst := ut_dst.(type) {
			case *types.Slice:
				var res []value
				switch ut_dst.Elem().Underlying().(*types.Basic).Kind() {
				case types.Rune:
					for _, r := range []rune(s) {
						res = append(res, r)
					}
					return res
				case types.Byte:
					for _, b := range []byte(s) {
						res = append(res, b)
					}
					return res
				}
			case *types.Basic:
				if ut_dst.Kind() == types.String {
					return x.(string)
				}
			}
			break // fail: no other conversions for string
		}

		// unsafe.Pointer -> *value
		if ut_src.Kind() == types.UnsafePointer {
			// TODO(adonovan): this is wrong and cannot
			// really be fixed with the current design.
			//
			// return (*value)(x.(unsafe.Pointer))
			// creates a new pointer of a different
			// type but the underlying interface value
			// knows its "true" type and so cannot be
			// meaningfully used through the new pointer.
			//
			// To make this work, the interpreter needs to
			// simulate the memory layout of a real
			// compiled implementation.
			//
			// To at least preserve type-safety, we'll
			// just return the zero value of the
			// destination type.
			return zero(t_dst)
		}

		// Conversions between complex numeric types?
		if ut_src.Info()&types.IsComplex != 0 {
			switch ut_dst.(*types.Basic).Kind() {
			case types.Complex64:
				return complex64(x.(complex128))
			case types.Complex128:
				return x.(complex128)
			}
			break // fail: no other conversions for complex
		}

		// Conversions between non-complex numeric types?
		if ut_src.Info()&types.IsNumeric != 0 {
			kind := ut_dst.(*types.Basic).Kind()
			switch x := x.(type) {
			case int64: // signed integer -> numeric?
				switch kind {
				case types.Int:
					return int(x)
				case types.Int8:
					return int8(x)
				case types.Int16:
					return int16(x)
				case types.Int32:
					return int32(x)
				case types.Int64:
					return int64(x)
				case types.Uint:
					return uint(x)
				case types.Uint8:
					return uint8(x)
				case types.Uint16:
					return uint16(x)
				case types.Uint32:
					return uint32(x)
				case types.Uint64:
					return uint64(x)
				case types.Uintptr:
					return uintptr(x)
				case types.Float32:
					return float32(x)
				case types.Float64:
					return float64(x)
				}

			case uint64: // unsigned integer -> numeric?
				switch kind {
				case types.Int:
					return int(x)
				case types.Int8:
					return int8(x)
				case types.Int16:
					return int16(x)
				case types.Int32:
					return int32(x)
				case types.Int64:
					return int64(x)
				case types.Uint:
					return uint(x)
				case types.Uint8:
					return uint8(x)
				case types.Uint16:
					return uint16(x)
				case types.Uint32:
					return uint32(x)
				case types.Uint64:
					return uint64(x)
				case types.Uintptr:
					return uintptr(x)
				case types.Float32:
					return float32(x)
				case types.Float64:
					return float64(x)
				}

			case float64: // floating point -> numeric?
				switch kind {
				case types.Int:
					return int(x)
				case types.Int8:
					return int8(x)
				case types.Int16:
					return int16(x)
				case types.Int32:
					return int32(x)
				case types.Int64:
					return int64(x)
				case types.Uint:
					return uint(x)
				case types.Uint8:
					return uint8(x)
				case types.Uint16:
					return uint16(x)
				case types.Uint32:
					return uint32(x)
				case types.Uint64:
					return uint64(x)
				case types.Uintptr:
					return uintptr(x)
				case types.Float32:
					return float32(x)
				case types.Float64:
					return float64(x)
				}
			}
		}
	}

	panic(fmt.Sprintf("unsupported conversion: %s  -> %s, dynamic type %T", t_src, t_dst, x))
}

// sliceToArrayPointer converts the value x of type slice to type t_dst
// a pointer to array and returns the result.
func sliceToArrayPointer(t_dst, t_src types.Type, x value) value {
	if _, ok := t_src.Underlying().(*types.Slice); ok {
		if ptr, ok := t_dst.Underlying().(*types.Pointer); ok {
			if arr, ok := ptr.Elem().Underlying().(*types.Array); ok {
				x := x.([]value)
				if arr.Len() > int64(len(x)) {
					panic("array length is greater than slice length")
				}
				if x == nil {
					return zero(t_dst)
				}
				v := value(array(x[:arr.Len()]))
				return &v
			}
		}
	}

	panic(fmt.Sprintf("unsupported conversion: %s  -> %s, dynamic type %T", t_src, t_dst, x))
}

// checkInterface checks that the method set of x implements the
// interface itype.
// On success it returns "", on failure, an error message.
func checkInterface(i *interpreter, itype *types.Interface, x iface) string {
	if meth, _ := types.MissingMethod(x.t, itype, true); meth != nil {
		return fmt.Sprintf("interface conversion: %v is not %v: missing method %s",
			x.t, itype, meth.Name())
	}
	return "" // ok
}

func foldLeft(op func(value, value) value, args []value) value {
	x := args[0]
	for _, arg := range args[1:] {
		x = op(x, arg)
	}
	return x
}

func min(x, y value) value {
	switch x := x.(type) {
	case float32:
		return fmin(x, y.(float32))
	case float64:
		return fmin(x, y.(float64))
	}

	// return (y < x) ? y : x
	if binop(token.LSS, nil, y, x).(bool) {
		return y
	}
	return x
}

func max(x, y value) value {
	switch x := x.(type) {
	case float32:
		return fmax(x, y.(float32))
	case float64:
		return fmax(x, y.(float64))
	}

	// return (y > x) ? y : x
	if binop(token.GTR, nil, y, x).(bool) {
		return y
	}
	return x
}

// copied from $GOROOT/src/runtime/minmax.go

type floaty interface{ ~float32 | ~float64 }

func fmin[F floaty](x, y F) F {
	if y != y || y < x {
		return y
	}
	if x != x || x < y || x != 0 {
		return x
	}
	// x and y are both ±0
	// if either is -0, return -0; else return +0
	return forbits(x, y)
}

func fmax[F floaty](x, y F) F {
	if y != y || y > x {
		return y
	}
	if x != x || x > y || x != 0 {
		return x
	}
	// x and y are both ±0
	// if both are -0, return -0; else return +0
	return fandbits(x, y)
}

func forbits[F floaty](x, y F) F {
	switch unsafe.Sizeof(x) {
	case 4:
		*(*uint32)(unsafe.Pointer(&x)) |= *(*uint32)(unsafe.Pointer(&y))
	case 8:
		*(*uint64)(unsafe.Pointer(&x)) |= *(*uint64)(unsafe.Pointer(&y))
	}
	return x
}

func fandbits[F floaty](x, y F) F {
	switch unsafe.Sizeof(x) {
	case 4:
		*(*uint32)(unsafe.Pointer(&x)) &= *(*uint32)(unsafe.Pointer(&y))
	case 8:
		*(*uint64)(unsafe.Pointer(&x)) &= *(*uint64)(unsafe.Pointer(&y))
	}
	return x
}

// snapIter iterates a map in a deterministic order (sorted by a canonical
// rendering of the key); with Config.MapOrderChoice the order is a choice point.
type snapIter struct {
	m    map[value]value
	h    *hashmap
	keys []value
	pos  int
}

func (it *snapIter) order(fr *frame) {
	strs := make([]string, len(it.keys))
	for i, k := range it.keys {
		strs[i] = fmt.Sprintf("%T:%s", k, toString(k))
	}
	idx := make([]int, len(it.keys))
	for i := range idx {
		idx[i] = i
	}
	sort.Slice(idx, func(a, b int) bool { return strs[idx[a]] < strs[idx[b]] })
	keys := make([]value, len(idx))
	for i, j := range idx {
		keys[i] = it.keys[j]
	}
	it.keys = keys
	n := len(keys)
	if fr != nil && fr.i.cfg.MapOrderChoice && n > 1 && fr.i.isCodeUnderTest(fr.fn) {
		if n <= 3 {
			// all permutations: choose successive elements
			rest := append([]value{}, keys...)
			var out []value
			for len(rest) > 1 {
				c := fr.i.s.choose(len(rest))
				out = append(out, rest[c])
				rest = append(rest[:c], rest[c+1:]...)
			}
			it.keys = append(out, rest...)
		} else {
			// larger maps: a family of n+3 orders instead of n! (sorted, reversed, evens
			// before odds, odds before evens, every rotation)
			// ... plus stride permutations i -> (i*k) mod n for the k coprime to n, which look
			// "shuffled" to pattern-detecting code such as pdqsort
			var strides []int
			for k := 2; k < n && len(strides) < 6; k++ {
				g, h := k, n
				for h != 0 {
					g, h = h, g%h
				}
				if g == 1 {
					strides = append(strides, k)
				}
			}
			const shuffles = 4 // fixed pseudo-random shuffles (deterministic seeds)
			c := fr.i.s.choose(n + 3 + len(strides) + shuffles)
			if c >= n+3+len(strides) {
				seed := uint32(c-n-3-len(strides))*2654435761 + uint32(n)*40503 + 12345
				perm := append([]value{}, keys...)
				for i2 := n - 1; i2 > 0; i2-- {
					seed ^= seed << 13
					seed ^= seed >> 17
					seed ^= seed << 5
					j2 := int(seed % uint32(i2+1))
					perm[i2], perm[j2] = perm[j2], perm[i2]
				}
				it.keys = perm
				return
			}
			if c >= n+3 {
				k := strides[c-n-3]
				perm := make([]value, n)
				for i2 := 0; i2 < n; i2++ {
					perm[i2] = keys[(i2*k)%n]
				}
				it.keys = perm
				return
			}
			switch {
			case c == 1:
				for a, b := 0, n-1; a < b; a, b = a+1, b-1 {
					keys[a], keys[b] = keys[b], keys[a]
				}
			case c == 2 || c == 3:
				var ev, od []value
				for k, v := range keys {
					if k%2 == 0 {
						ev = append(ev, v)
					} else {
						od = append(od, v)
					}
				}
				if c == 2 {
					it.keys = append(ev, od...)
				} else {
					it.keys = append(od, ev...)
				}
			case c >= 4:
				r := c - 3
				it.keys = append(append([]value{}, keys[r:]...), keys[:r]...)
			}
		}
	}
}

func (it *snapIter) next() tuple {
	for it.pos < len(it.keys) {
		k := it.keys[it.pos]
		it.pos++
		if it.m != nil {
			if v, ok := it.m[k]; ok {
				return []value{true, k, v}
			}
			continue
		}
		if v := it.h.lookup(k.(hashable)); v != nil {
			return []value{true, k, v}
		}
	}
	return []value{false, nil, nil}
}

// symStrIter ranges over a string with symbolic bytes. A symbolic byte is decided
// to be ASCII (then it is the rune) or not; multi-byte sequences that involve a
// symbolic byte are outside the engine.
type symStrIter struct {
	fr *frame
	s  symStr
	i  int
}

func (it *symStrIter) next() tuple {
	okv := make(tuple, 3)
	if it.i >= len(it.s.b) {
		okv[0] = false
		return okv
	}
	okv[0] = true
	okv[1] = it.i
	b := it.s.b[it.i]
	if sb, ok := b.(sym); ok {
		if !it.fr.i.decide(symBinop(token.LSS, types.Typ[types.Uint8], sb, byte(0x80))) {
			panic(unsupported{"range over a string: non-ASCII symbolic byte"})
		}
		okv[2] = symConv(types.Typ[types.Int32], sb)
		it.i++
		return okv
	}
	c := b.(byte)
	if c < 0x80 {
		okv[2] = rune(c)
		it.i++
		return okv
	}
	// a concrete lead byte: decode if the continuation bytes are concrete too
	var buf []byte
	for k := it.i; k < len(it.s.b) && k < it.i+4; k++ {
		cb, ok := it.s.b[k].(byte)
		if !ok {
			panic(unsupported{"range over a string: multi-byte sequence with a symbolic byte"})
		}
		buf = append(buf, cb)
	}
	r, n := utf8.DecodeRune(buf)
	okv[2] = r
	it.i += n
	return okv
}
