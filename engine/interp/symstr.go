package interp

import (
	"go/token"
	"go/types"
)

// symStr is a string whose bytes may be symbolic; length is concrete.
type symStr struct{ b []value }

func anySym(b []value) bool {
	for _, v := range b {
		if isSym(v) {
			return true
		}
	}
	return false
}

func mkStr(b []value) value {
	if !anySym(b) {
		bs := make([]byte, len(b))
		for i, v := range b {
			bs[i] = v.(byte)
		}
		return string(bs)
	}
	c := make([]value, len(b))
	copy(c, b)
	return symStr{c}
}

func strBytes(v value) []value {
	switch s := v.(type) {
	case symStr:
		return s.b
	case string:
		r := make([]value, len(s))
		for i := 0; i < len(s); i++ {
			r[i] = s[i]
		}
		return r
	}
	panic("strBytes")
}

func isStrLike(v value) bool {
	switch v.(type) {
	case symStr, string:
		return true
	}
	return false
}

func (s *Session) byteT(v value) *Term { return s.toTerm(v, types.Uint8) }

func (s *Session) and(a, b *Term) *Term { return s.mk("and", 0, a, b) }
func (s *Session) or(a, b *Term) *Term  { return s.mk("or", 0, a, b) }

func symStrBinop(op token.Token, x, y value) value {
	a, b := strBytes(x), strBytes(y)
	if op == token.ADD {
		return mkStr(append(append([]value{}, a...), b...))
	}
	s := sessOf(x, y)
	switch op {
	case token.ADD:
		return mkStr(append(append([]value{}, a...), b...))
	case token.EQL, token.NEQ:
		var r *Term
		if len(a) != len(b) {
			r = s.constT(0, 0)
		} else {
			r = s.constT(0, 1)
			for i := range a {
				r = s.and(r, s.mk("=", 0, s.byteT(a[i]), s.byteT(b[i])))
			}
		}
		if op == token.NEQ {
			r = s.not(r)
		}
		return mkSym(types.Bool, r)
	case token.LSS, token.LEQ, token.GTR, token.GEQ:
		if op == token.GTR || op == token.GEQ {
			a, b = b, a
			if op == token.GTR {
				op = token.LSS
			} else {
				op = token.LEQ
			}
		}
		// a < b (or <=): lexicographic
		n := len(a)
		if len(b) < n {
			n = len(b)
		}
		var tail *Term
		if op == token.LSS {
			tail = s.constT(0, b2u(len(a) < len(b)))
		} else {
			tail = s.constT(0, b2u(len(a) <= len(b)))
		}
		r := tail
		for i := n - 1; i >= 0; i-- {
			ai, bi := s.byteT(a[i]), s.byteT(b[i])
			lt := s.mk("bvult", 0, ai, bi)
			eq := s.mk("=", 0, ai, bi)
			r = s.or(lt, s.and(eq, r))
		}
		return mkSym(types.Bool, r)
	}
	panic("symStrBinop " + op.String())
}


