package interp

import "math"

func mathFloor(f float64) float64 { return math.Floor(f) }
func mathCeil(f float64) float64  { return math.Ceil(f) }
func mathLog2(f float64) float64  { return math.Log2(f) }
