package interp

// Exploration: forking by re-execution over a pool of workers.

import (
	"fmt"
	"go/token"
	"go/types"
	"os"
	"runtime"
	"runtime/debug"
	"sort"
	"strings"
	"sync"
	"time"

	"golang.org/x/tools/go/ssa"
)

var traceCalls = os.Getenv("GS_TRACE") != ""

// Config holds per-harness settings.
type Config struct {
	InitAllow     map[string]bool
	Replace       map[string]string // Function.String() -> "pkgpath:FuncName"
	TargetPrefix  string
	MaxSteps      int64
	MaxPaths      int
	Workers       int
	Solver        string
	TimeoutMs     int
	SchedChoice   bool
	CloseYield    bool // closing a channel is a scheduling point (with SchedChoice)
	TickerTicks   int  // every time.Ticker delivers up to this many ticks, each as soon as somebody receives (0: tickers never fire)
	MapOrderChoice bool
	RaceMode      bool // record an event skeleton and run the order-variable race analysis on completed paths
	ConcreteMem   bool // pkg/mem sizes are a fixed 8 GiB instead of nondeterministic values
	HashIDs       bool // meow on symbolic input: concrete identifiers decided by forking on input equality
	MaxConcretize int
	AllocBudget   int64 // bytes; 0 = no allocation check
	AllocCap      int64 // elements explored beyond which a symbolic make is cut
	Deadline      time.Time
	Vectors       []map[string]uint64 // vector mode: run these concrete vectors instead of exploring
	StepsArePanic bool                // exceeding MaxSteps is a candidate violation (C17 "never loops forever")
	MaxViolationsPerClass int
	Params        map[string]int
}

func (c *Config) initAllowed(p string) bool {
	if strings.HasPrefix(p, c.TargetPrefix) {
		return true
	}
	return c.InitAllow[p]
}

func (c *Config) isTarget(p string) bool {
	return strings.HasPrefix(p, c.TargetPrefix) && !strings.Contains(p, "/zzverif")
}

var harnessFn sync.Map // *ssa.Function -> bool (true = harness code)

// isCodeUnderTest: a function of the repository that is not harness code.
func (i *interpreter) isCodeUnderTest(fn *ssa.Function) bool {
	if fn.Pkg == nil || !i.cfg.isTarget(fn.Pkg.Pkg.Path()) {
		if fn.Parent() != nil {
			return i.isCodeUnderTest(fn.Parent())
		}
		return false
	}
	if v, ok := harnessFn.Load(fn); ok {
		return !v.(bool)
	}
	h := false
	if fn.Pos().IsValid() {
		f := fn.Prog.Fset.Position(fn.Pos()).Filename
		if k := strings.LastIndex(f, "/"); k >= 0 {
			f = f[k+1:]
		}
		h = strings.HasPrefix(f, "zz_verif_")
	}
	harnessFn.Store(fn, h)
	return !h
}

func (c *Config) isTargetInit(p string) bool { return strings.HasPrefix(p, c.TargetPrefix) }

func (c *Config) resolve(prog *ssa.Program, to string) *ssa.Function {
	k := strings.LastIndex(to, ":")
	pkg := prog.ImportedPackage(to[:k])
	if pkg == nil {
		panic(engineError{"replace: package not found: " + to})
	}
	f := pkg.Func(to[k+1:])
	if f == nil {
		panic(engineError{"replace: function not found: " + to})
	}
	return f
}

var DefaultInitAllow = []string{"io", "sort", "bytes", "encoding/binary", "strings", "unicode", "unicode/utf8", "math", "strconv", "bufio", "container/list", "container/heap", "encoding/hex", "regexp", "regexp/syntax", "time", "math/bits", "slices", "cmp", "maps", "hash", "hash/crc32", "encoding/csv", "path", "path/filepath", "context", "compress/flate", "compress/gzip"}

type Violation struct {
	Label     string            `json:"label"`
	Kind      string            `json:"kind"` // assert | panic | deadlock | steps | alloc
	Model     map[string]uint64 `json:"model"`
	Regions   []string          `json:"regions"` // regions that hold under Model
	Decisions []Decision        `json:"decisions,omitempty"`
}

type PathSample struct {
	Decisions int               `json:"decisions"`
	Outcome   string            `json:"outcome"`
	Model     map[string]uint64 `json:"model,omitempty"`
	Asserts   []string          `json:"asserts_checked,omitempty"`
}

type Result struct {
	Harness      string
	Paths        int
	SymPaths     int // paths with at least one decision on a symbolic term
	Decisions    int
	Outcomes     map[string]int
	Reached      map[string]int
	AssertsChecked map[string]int
	Violations   []Violation
	ViolationCount map[string]int // label|regions -> count of paths
	Incomplete   map[string]int // reason -> count
	Cuts         map[string]int
	EngineErrors map[string]int
	Observed     [][]string // vector mode: per vector, the observation log
	Stats        Stats
	Cov          map[string]int
	Samples      []PathSample
	Wall         time.Duration
	RegionsSeen  map[string]bool
	Assumes      map[string][2]int // label -> [held, cut]
	StepsMax     int64
}

type pathResult struct {
	outcome    string
	kind       string // ok | assume | infeasible | violation | incomplete | cut | engine
	newPaths   [][]Decision
	violations []Violation
	reached    []string
	asserts    []string
	observed   []string
	incomplete string
	decisions  int
	symDec     int
	cov        map[*ssa.Function]int
	regions    []string
	assumes    map[string][2]int
	steps      int64
	model      map[string]uint64
	cuts       []string
}

type unsupported struct{ msg string }
type budgetExceeded struct{}
type pathCut struct{ why string }

func isControlPanic(p interface{}) bool {
	switch p.(type) {
	case killed, deadlock, assumeFail, pathInfeasible, pathIncomplete, budgetExceeded, pathCut, unsupported, engineError:
		return true
	}
	return false
}

// Explore runs harness fnName of mainpkg over all feasible paths.
func Explore(mainpkg *ssa.Package, sizes types.Sizes, fnName string, cfg *Config) *Result {
	t0 := time.Now()
	res := &Result{Harness: fnName, Outcomes: map[string]int{}, Reached: map[string]int{}, AssertsChecked: map[string]int{},
		ViolationCount: map[string]int{}, Incomplete: map[string]int{}, Cuts: map[string]int{}, EngineErrors: map[string]int{},
		Cov: map[string]int{}, RegionsSeen: map[string]bool{}, Assumes: map[string][2]int{}}
	if mainpkg.Func(fnName) == nil {
		res.Incomplete["skipped: symbol not found"]++
		return res
	}
	if cfg.Workers <= 0 {
		cfg.Workers = runtime.NumCPU()
	}
	if cfg.MaxSteps == 0 {
		cfg.MaxSteps = 5_000_000
	}
	if cfg.MaxPaths == 0 {
		cfg.MaxPaths = 200000
	}
	if cfg.MaxConcretize == 0 {
		cfg.MaxConcretize = 24
	}
	if cfg.MaxViolationsPerClass == 0 {
		cfg.MaxViolationsPerClass = 3
	}
	if cfg.AllocCap == 0 {
		cfg.AllocCap = 64
	}

	tmpl := buildTemplate(mainpkg, sizes, cfg)
	var mu sync.Mutex
	cond := sync.NewCond(&mu)
	var queue [][]Decision
	outstanding := 0
	started := 0
	stop := false
	vecIdx := 0
	if cfg.Vectors == nil {
		queue = append(queue, nil)
	}
	perClass := map[string]int{}

	merge := func(pr *pathResult) {
		res.Paths++
		res.Decisions += pr.decisions
		if pr.symDec > 0 {
			res.SymPaths++
		}
		res.Outcomes[pr.kind]++
		if pr.steps > res.StepsMax {
			res.StepsMax = pr.steps
		}
		switch pr.kind {
		case "incomplete":
			res.Incomplete[pr.outcome]++
		case "cut":
			res.Cuts[pr.outcome]++
		case "engine":
			res.EngineErrors[pr.outcome]++
		}
		if pr.incomplete != "" && pr.kind != "incomplete" {
			res.Incomplete[pr.incomplete]++
		}
		for _, c := range pr.cuts {
			res.Cuts[c]++
		}
		for _, r := range pr.reached {
			res.Reached[r]++
		}
		for _, a := range pr.asserts {
			res.AssertsChecked[a]++
		}
		for _, r := range pr.regions {
			res.RegionsSeen[r] = true
		}
		for k, v := range pr.assumes {
			o := res.Assumes[k]
			o[0] += v[0]
			o[1] += v[1]
			res.Assumes[k] = o
		}
		for _, v := range pr.violations {
			key := v.Label + "|" + strings.Join(v.Regions, ",")
			res.ViolationCount[key]++
			if perClass[key] < cfg.MaxViolationsPerClass {
				perClass[key]++
				res.Violations = append(res.Violations, v)
			}
		}
		for f, n := range pr.cov {
			res.Cov[f.String()] += n
		}
		if cfg.Vectors != nil {
			res.Observed = append(res.Observed, pr.observed)
		}
		if len(res.Samples) < 6 && (pr.symDec > 0 || cfg.Vectors != nil) && (pr.kind == "ok" || pr.kind == "violation") {
			res.Samples = append(res.Samples, PathSample{Decisions: pr.decisions, Outcome: pr.kind + ":" + pr.outcome, Model: pr.model, Asserts: pr.asserts})
		}
	}

	var wg sync.WaitGroup
	nw := cfg.Workers
	if cfg.Vectors != nil && nw > len(cfg.Vectors) {
		nw = len(cfg.Vectors)
	}
	if nw < 1 {
		nw = 1
	}
	for w := 0; w < nw; w++ {
		wg.Add(1)
		go func() {
			defer wg.Done()
			s := NewSession(cfg.Solver)
			if cfg.TimeoutMs > 0 {
				s.TimeoutMs = cfg.TimeoutMs
			}
			s.maxConcretize = cfg.MaxConcretize
			defer s.Close()
			defer func() {
				mu.Lock()
				res.Stats.add(s.St)
				mu.Unlock()
			}()
			for {
				var prefix []Decision
				var vec map[string]uint64
				mu.Lock()
				for !stop && cfg.Vectors == nil && len(queue) == 0 && outstanding > 0 {
					cond.Wait()
				}
				if stop {
					mu.Unlock()
					return
				}
				if cfg.Vectors != nil {
					if vecIdx >= len(cfg.Vectors) {
						mu.Unlock()
						return
					}
					vec = cfg.Vectors[vecIdx]
					vecIdx++
				} else {
					why := ""
					switch {
					case len(queue) == 0:
						why = "done"
					case started >= cfg.MaxPaths:
						why = "path cap reached"
					case !cfg.Deadline.IsZero() && time.Now().After(cfg.Deadline):
						why = "wall-time cap reached"
					}
					if why != "" {
						if why != "done" {
							res.Incomplete[why]++
						}
						stop = true
						cond.Broadcast()
						mu.Unlock()
						return
					}
					prefix = queue[len(queue)-1]
					queue = queue[:len(queue)-1]
				}
				started++
				outstanding++
				mu.Unlock()

				s.vector = vec
				pr := runOne(mainpkg, sizes, fnName, cfg, s, prefix, tmpl)

				mu.Lock()
				outstanding--
				merge(pr)
				if cfg.Vectors == nil {
					queue = append(queue, pr.newPaths...)
				}
				cond.Broadcast()
				mu.Unlock()
			}
		}()
	}
	wg.Wait()
	if len(queue) > 0 {
		res.Incomplete[fmt.Sprintf("unexplored prefixes left: %d", len(queue))]++
	}
	res.Wall = time.Since(t0)
	sort.Slice(res.Violations, func(i, j int) bool { return res.Violations[i].Label < res.Violations[j].Label })
	return res
}

func (a *Stats) add(b Stats) {
	a.Queries += b.Queries
	a.Sat += b.Sat
	a.Unsat += b.Unsat
	a.Unknown += b.Unknown
	a.SolveDur += b.SolveDur
	a.FallbackQueries += b.FallbackQueries
	a.ModelHits += b.ModelHits
}

// pathState is per-path bookkeeping reachable from externals via fr.i.ps.
type pathState struct {
	violations []Violation
	reached    []string
	asserts    []string
	observed   []string
	assumes    map[string][2]int
	crashArmed bool
}

func runOne(mainpkg *ssa.Package, sizes types.Sizes, fnName string, cfg *Config, s *Session, prefix []Decision, tmpl *interpreter) (pr *pathResult) {
	pr = &pathResult{}
	i := &interpreter{
		prog:       mainpkg.Prog,
		globals:    make(map[*ssa.Global]*value),
		mode:       0,
		sizes:      sizes,
		goroutines: 1,
		s:          s,
		sc:         newSched(),
		maxSteps:   cfg.MaxSteps,
		extCache:   map[*ssa.Function]externalFn{},
		replCache:  map[*ssa.Function]*ssa.Function{},
		cov:        map[*ssa.Function]int{},
		cfg:        cfg,
		ps:         &pathState{assumes: map[string][2]int{}},
		tmpl:       tmpl,
	}
	i.sc.schedChoice = cfg.SchedChoice
	i.sc.closeYield = cfg.CloseYield
	i.sc.tickerTicks = cfg.TickerTicks
	if cfg.RaceMode {
		i.evlog = newEventLog()
	}
	s.beginPath(prefix)
	runtimePkg := i.prog.ImportedPackage("runtime")
	i.runtimeErrorString = runtimePkg.Type("errorString").Object().Type()
	initReflect(i)
	finish := func() {
		i.sc.shutdown()
		pr.newPaths = s.newPaths
		pr.violations = append(pr.violations, i.ps.violations...)
		pr.reached = i.ps.reached
		pr.asserts = i.ps.asserts
		pr.observed = i.ps.observed
		pr.assumes = i.ps.assumes
		pr.decisions = len(s.taken)
		pr.symDec = s.symDecisions
		pr.cov = i.cov
		pr.steps = i.steps
		if pr.incomplete == "" {
			pr.incomplete = s.incomplete
		}
		for _, r := range s.regions {
			pr.regions = append(pr.regions, r.name)
		}
		pr.cuts = s.cuts
		if len(pr.violations) > 0 && pr.kind == "ok" {
			pr.kind = "violation"
			pr.outcome = pr.violations[0].Label
		}
	}
	defer func() {
		r := recover()
		if r == nil {
			return
		}
		if _, ok := r.(killed); ok && i.sc.fatal != nil {
			r = i.sc.fatal
		}
		i.classify(r, pr)
		finish()
	}()
	call(i, nil, token.NoPos, mainpkg.Func("init"), nil)
	i.steps = 0
	call(i, nil, token.NoPos, mainpkg.Func(fnName), nil)
	pr.kind, pr.outcome = "ok", "ok"
	if i.evlog != nil && s.vector == nil {
		for _, r := range i.analyzeRaces() {
			i.reportViolation("race", "race: "+r, nil)
		}
		if i.raceStats != "" {
			i.ps.reached = append(i.ps.reached, "race-analysis: "+i.raceStats)
		}
	}
	if s.vector == nil && s.symDecisions > 0 && s.needModelNoPanic() {
		pr.model = s.namedModel(s.model)
	} else if s.vector != nil {
		pr.model = s.vector
	}
	finish()
	return pr
}

func (s *Session) needModelNoPanic() (ok bool) {
	defer func() {
		if r := recover(); r != nil {
			ok = false
		}
	}()
	return s.needModel()
}

// classify turns the panic value that ended a path into an outcome.
func (i *interpreter) classify(r interface{}, pr *pathResult) {
	s := i.s
	panicViolation := func(kind, label string) {
		pr.kind, pr.outcome = "violation", label
		i.reportViolation(kind, label, nil)
	}
	switch p := r.(type) {
	case assumeFail:
		pr.kind, pr.outcome = "assume", "assume"
	case pathInfeasible:
		pr.kind, pr.outcome = "infeasible", "infeasible"
	case pathIncomplete:
		pr.kind, pr.outcome = "incomplete", p.why
	case pathCut:
		pr.kind, pr.outcome = "cut", p.why
	case unsupported:
		pr.kind, pr.outcome = "incomplete", "unsupported: "+p.msg
	case engineError:
		pr.kind, pr.outcome = "engine", p.msg
	case budgetExceeded:
		if i.cfg.StepsArePanic {
			panicViolation("steps", "steps: step budget exceeded")
		} else {
			pr.kind, pr.outcome = "incomplete", "step budget exceeded (unwinding bound)"
		}
	case deadlock:
		panicViolation("deadlock", "deadlock: "+p.desc)
	case killed:
		pr.kind, pr.outcome = "engine", "killed without cause"
	case targetPanic:
		panicViolation("panic", "panic: "+panicText(i, p.v))
	case *runtime.TypeAssertionError:
		msg := p.Error()
		if strings.Contains(msg, "interp.") {
			pr.kind, pr.outcome = "engine", "interp: "+msg+"\n"+shortStack()
		} else {
			panicViolation("panic", "panic: "+msg)
		}
	case runtime.Error:
		msg := p.Error()
		if os.Getenv("GS_STACK") != "" {
			fmt.Fprintln(os.Stderr, msg, string(debug.Stack()))
		}
		if strings.Contains(msg, "comparing uncomparable") || strings.Contains(msg, "hash of unhashable") {
			pr.kind, pr.outcome = "engine", "interp: "+msg+"\n"+shortStack()
		} else {
			panicViolation("panic", "panic: "+msg)
		}
	case string:
		pr.kind, pr.outcome = "engine", "interp: "+p+"\n"+shortStack()
	case error:
		pr.kind, pr.outcome = "engine", "interp: "+p.Error()
	default:
		pr.kind, pr.outcome = "engine", fmt.Sprintf("interp: %T %v", r, r)
	}
	_ = s
}

func shortStack() string {
	if os.Getenv("GS_STACK") == "" {
		return ""
	}
	return string(debug.Stack())
}

func panicText(i *interpreter, v value) (txt string) {
	defer func() {
		if r := recover(); r != nil {
			txt = "<unprintable panic value>"
		}
	}()
	if ifc, ok := v.(iface); ok && ifc.t != nil {
		if m := findMethod(i, ifc.t, "Error"); m != nil {
			if s, ok := call(i, nil, 0, m, []value{ifc.v}).(string); ok {
				return s
			}
		}
		return toString(ifc.v)
	}
	return toString(v)
}

// reportViolation records a violation of the current path. extra is the
// additional condition under which it happens (nil: the whole path).
// Regions: one query for a model outside every declared region, and one per region.
func (i *interpreter) reportViolation(kind, label string, extra *Term) {
	s := i.s
	ps := i.ps
	add := func(m map[int]uint64) {
		if s.vector != nil {
			if kind == "assert" {
				ps.observed = append(ps.observed, "FAIL "+strings.TrimPrefix(label, "assert: "))
			} else {
				ps.observed = append(ps.observed, "PANIC")
			}
		}
		v := Violation{Label: label, Kind: kind, Decisions: append([]Decision{}, s.taken...)}
		saved, savedOK := s.model, s.modelOK
		s.model = m
		v.Model = s.namedModel(m)
		for _, r := range s.regions {
			if x, ok := s.eval(r.t); ok && x != 0 {
				v.Regions = append(v.Regions, r.name)
			}
		}
		s.model, s.modelOK = saved, savedOK
		ps.violations = append(ps.violations, v)
	}
	if s.vector != nil {
		add(s.model)
		return
	}
	defer func() {
		if r := recover(); r != nil {
			if _, ok := r.(engineError); ok {
				panic(r)
			}
			// solver gave up while classifying: record without model
			ps.violations = append(ps.violations, Violation{Label: label, Kind: kind, Decisions: append([]Decision{}, s.taken...)})
		}
	}()
	var extras []*Term
	if extra != nil {
		extras = append(extras, extra)
	}
	var symRegions []regionRec
	for _, r := range s.regions {
		if r.t.op != "const" {
			symRegions = append(symRegions, r)
		}
	}
	if len(symRegions) == 0 {
		if extra == nil && s.modelOK {
			add(s.model)
			return
		}
		r, m := s.query(true, extras...)
		if r == qSat {
			add(m)
		} else if r == qUnknown {
			s.incomplete = "solver unknown at violation"
		}
		return
	}
	out := append([]*Term{}, extras...)
	for _, r := range symRegions {
		out = append(out, s.not(r.t))
	}
	if r, m := s.query(true, out...); r == qSat {
		add(m)
	}
	for _, r := range symRegions {
		if q, m := s.query(true, append(append([]*Term{}, extras...), r.t)...); q == qSat {
			add(m)
		}
	}
}

func tpDeref(t types.Type) types.Type { return t.Underlying().(*types.Pointer).Elem() }

// buildTemplate runs the package initialisers once; the resulting non-target
// globals are shared (read-only) by every path of this exploration.
func buildTemplate(mainpkg *ssa.Package, sizes types.Sizes, cfg *Config) (t *interpreter) {
	s := NewSession(cfg.Solver)
	s.vector = map[string]uint64{}
	s.beginPath(nil)
	i := &interpreter{
		prog:      mainpkg.Prog,
		globals:   make(map[*ssa.Global]*value),
		sizes:     sizes,
		s:         s,
		sc:        newSched(),
		maxSteps:  1 << 40,
		extCache:  map[*ssa.Function]externalFn{},
		replCache: map[*ssa.Function]*ssa.Function{},
		cov:       map[*ssa.Function]int{},
		cfg:       cfg,
		ps:        &pathState{assumes: map[string][2]int{}},
	}
	runtimePkg := i.prog.ImportedPackage("runtime")
	i.runtimeErrorString = runtimePkg.Type("errorString").Object().Type()
	initReflect(i)
	defer func() {
		if r := recover(); r != nil {
			fmt.Fprintf(os.Stderr, "gosym: package initialisation failed in template: %v\n", r)
			t = nil
		}
		i.sc.shutdown()
	}()
	call(i, nil, token.NoPos, mainpkg.Func("init"), nil)
	return i
}
