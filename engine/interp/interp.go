// Copyright 2013 The Go Authors. All rights reserved.
// Use of this source code is governed by a BSD-style
// license that can be found in the LICENSE file.

// Package ssa/interp defines an interpreter for the SSA
// representation of Go programs.
//
// This interpreter is provided as an adjunct for testing the SSA
// construction algorithm.  Its purpose is to provide a minimal
// metacircular implementation of the dynamic semantics of each SSA
// instruction.  It is not, and will never be, a production-quality Go
// interpreter.
//
// The following is a partial list of Go features that are currently
// unsupported or incomplete in the interpreter.
//
// * Unsafe operations, including all uses of unsafe.Pointer, are
// impossible to support given the "boxed" value representation we
// have chosen.
//
// * The reflect package is only partially implemented.
//
// * The "testing" package is no longer supported because it
// depends on low-level details that change too often.
//
// * "sync/atomic" operations are not atomic due to the "boxed" value
// representation: it is not possible to read, modify and write an
// interface value atomically. As a consequence, Mutexes are currently
// broken.
//
// * recover is only partially implemented.  Also, the interpreter
// makes no attempt to distinguish target panics from interpreter
// crashes.
//
// * the sizes of the int, uint and uintptr types in the target
// program are assumed to be the same as those of the interpreter
// itself.
//
// * all values occupy space, even those of types defined by the spec
// to have zero size, e.g. struct{}.  This can cause asymptotic
// performance degradation.
//
// * os.Exit is implemented using panic, causing deferred functions to
// run.
package interp

import (
	"sort"
	"sync"
	"fmt"
	"go/token"
	"go/types"
	"log"
	"os"
	"runtime"
	"slices"
	_ "unsafe"

	"golang.org/x/tools/go/ssa"
	typeparams "gosym/interp/tp"
)

type continuation int

const (
	kNext continuation = iota
	kReturn
	kJump
)

// Mode is a bitmask of options affecting the interpreter.
type Mode uint

const (
	DisableRecover Mode = 1 << iota // Disable recover() in target programs; show interpreter crash instead.
	EnableTracing                   // Print a trace of all instructions as they are interpreted.
)

type methodSet map[string]*ssa.Function

// State shared between all interpreted goroutines.
type interpreter struct {
	osArgs             []value                // the value of os.Args
	prog               *ssa.Program           // the SSA program
	globals            map[*ssa.Global]*value // addresses of global variables (immutable)
	mode               Mode                   // interpreter options
	reflectPackage     *ssa.Package           // the fake reflect package
	errorMethods       methodSet              // the method set of reflect.error, which implements the error interface.
	rtypeMethods       methodSet              // the method set of rtype, which implements the reflect.Type interface.
	runtimeErrorString types.Type             // the runtime.errorString type
	sizes              types.Sizes            // the effective type-sizing function
	goroutines         int32                  // atomically updated
	s                  *Session               // symbolic session of the worker running this path
	sc                 *sched                 // cooperative scheduler of this path
	steps, maxSteps    int64
	extCache           map[*ssa.Function]externalFn
	replCache          map[*ssa.Function]*ssa.Function
	cov                map[*ssa.Function]int  // functions of the code under test that were executed
	cfg                *Config
	ps                 *pathState
	tmpl               *interpreter // post-init template (shared, read-only) or nil
	evlog              *eventLog    // race mode: recorded events
	raceStats          string
	raceTotalEvents    int
}

type deferred struct {
	fn    value
	args  []value
	instr *ssa.Defer
	tail  *deferred
}

type frame struct {
	i                *interpreter
	caller           *frame
	fn               *ssa.Function
	block, prevBlock *ssa.BasicBlock
	env              []value // dynamic values of SSA variables, indexed by info.slots
	info             *fnInfo
	locals           []value
	defers           *deferred
	result           value
	panicking        bool
	panic            interface{}
	phitemps         []value // temporaries for parallel phi assignment
}

func (fr *frame) get(key ssa.Value) value {
	switch key := key.(type) {
	case nil:
		// Hack; simplifies handling of optional attributes
		// such as ssa.Slice.{Low,High}.
		return nil
	case *ssa.Function, *ssa.Builtin:
		return key
	case *ssa.Const:
		return constValue(key)
	case *ssa.Global:
		return fr.i.global(key)
	}
	if k, ok := fr.info.slots[key]; ok {
		return fr.env[k]
	}
	panic(fmt.Sprintf("get: no value for %T: %v", key, key.Name()))
}

// runDefer runs a deferred call d.
// It always returns normally, but may set or clear fr.panic.
func (fr *frame) runDefer(d *deferred) {
	if fr.i.mode&EnableTracing != 0 {
		fmt.Fprintf(os.Stderr, "%s: invoking deferred function call\n",
			fr.i.prog.Fset.Position(d.instr.Pos()))
	}
	var ok bool
	defer func() {
		if !ok {
			// Deferred call created a new state of panic.
			fr.panicking = true
			fr.panic = recover()
		}
	}()
	call(fr.i, fr, d.instr.Pos(), d.fn, d.args)
	ok = true
}

// runDefers executes fr's deferred function calls in LIFO order.
//
// On entry, fr.panicking indicates a state of panic; if
// true, fr.panic contains the panic value.
//
// On completion, if a deferred call started a panic, or if no
// deferred call recovered from a previous state of panic, then
// runDefers itself panics after the last deferred call has run.
//
// If there was no initial state of panic, or it was recovered from,
// runDefers returns normally.
func (fr *frame) runDefers() {
	for d := fr.defers; d != nil; d = d.tail {
		fr.runDefer(d)
	}
	fr.defers = nil
	if fr.panicking {
		panic(fr.panic) // new panic, or still panicking
	}
}

// lookupMethod returns the method set for type typ, which may be one
// of the interpreter's fake types.
func lookupMethod(i *interpreter, typ types.Type, meth *types.Func) *ssa.Function {
	switch typ {
	case rtypeType:
		return i.rtypeMethods[meth.Id()]
	case errorType:
		return i.errorMethods[meth.Id()]
	}
	return i.prog.LookupMethod(typ, meth.Pkg(), meth.Name())
}

// visitInstr interprets a single ssa.Instruction within the activation
// record frame.  It returns a continuation value indicating where to
// read the next instruction from.
func visitInstr(fr *frame, instr ssa.Instruction) continuation {
	switch instr := instr.(type) {
	case *ssa.DebugRef:
		// no-op

	case *ssa.UnOp:
		fr.env[fr.slot(instr)] = unop(fr, instr, fr.get(instr.X))

	case *ssa.BinOp:
		fr.env[fr.slot(instr)] = binop(instr.Op, instr.X.Type(), fr.get(instr.X), fr.get(instr.Y))

	case *ssa.Call:
		fn, args := prepareCall(fr, &instr.Call)
		fr.env[fr.slot(instr)] = call(fr.i, fr, instr.Pos(), fn, args)

	case *ssa.ChangeInterface:
		fr.env[fr.slot(instr)] = fr.get(instr.X)

	case *ssa.ChangeType:
		fr.env[fr.slot(instr)] = fr.get(instr.X) // (can't fail)

	case *ssa.Convert:
		fr.env[fr.slot(instr)] = conv(instr.Type(), instr.X.Type(), fr.get(instr.X))

	case *ssa.SliceToArrayPointer:
		fr.env[fr.slot(instr)] = sliceToArrayPointer(instr.Type(), instr.X.Type(), fr.get(instr.X))

	case *ssa.MakeInterface:
		fr.env[fr.slot(instr)] = iface{t: instr.X.Type(), v: fr.get(instr.X)}

	case *ssa.Extract:
		fr.env[fr.slot(instr)] = fr.get(instr.Tuple).(tuple)[instr.Index]

	case *ssa.Slice:
		if fr.i.s.segMode {
			if pt, ok := instr.X.Type().Underlying().(*types.Pointer); ok {
				if at, ok := pt.Elem().Underlying().(*types.Array); ok {
					if b, ok := at.Elem().Underlying().(*types.Basic); ok && b.Kind() == types.Uint8 {
						// spike: a freshly made constant-size []byte (make lowered to new [N]byte + slice)
						cur := fr.i.s
						n := cur.c64(int(at.Len()))
						fr.env[fr.slot(instr)] = cur.segSlice(cur.makeBytes(n, n), fr.get(instr.Low), fr.get(instr.High), fr.get(instr.Max))
						break
					}
				}
			}
		}
		fr.env[fr.slot(instr)] = slice(fr.get(instr.X), fr.get(instr.Low), fr.get(instr.High), fr.get(instr.Max))

	case *ssa.Return:
		switch len(instr.Results) {
		case 0:
		case 1:
			fr.result = fr.get(instr.Results[0])
		default:
			var res []value
			for _, r := range instr.Results {
				res = append(res, fr.get(r))
			}
			fr.result = tuple(res)
		}
		fr.block = nil
		return kReturn

	case *ssa.RunDefers:
		fr.runDefers()

	case *ssa.Panic:
		panic(targetPanic{fr.get(instr.X)})

	case *ssa.Send:
		fr.i.chanSend(fr.get(instr.Chan).(*gchan), fr.get(instr.X))

	case *ssa.Store:
		if bp, ok := fr.get(instr.Addr).(bptr); ok {
			cur := fr.i.s
			bp.seg.buf.writes = append(bp.seg.buf.writes, bwrite{off: cur.add(bp.seg.off, bp.idx), val: cur.toTerm(fr.get(instr.Val), types.Uint8)})
			break
		}
		if fr.i.evlog != nil {
			if a := fr.get(instr.Addr).(*value); !sameValue(*a, fr.get(instr.Val)) {
				fr.i.recordAccess(fr, a, true, instr.Pos(), instr.Addr)
			}
		}
		store(typeparams.MustDeref(instr.Addr.Type()), fr.get(instr.Addr).(*value), fr.get(instr.Val))

	case *ssa.If:
		succ := 1
		c := fr.get(instr.Cond)
		if sc, ok := c.(sym); ok {
			c = fr.i.s.branch(sc.t)
		}
		if c.(bool) {
			succ = 0
		}
		fr.prevBlock, fr.block = fr.block, fr.block.Succs[succ]
		return kJump

	case *ssa.Jump:
		fr.prevBlock, fr.block = fr.block, fr.block.Succs[0]
		return kJump

	case *ssa.Defer:
		fn, args := prepareCall(fr, &instr.Call)
		defers := &fr.defers
		if into := fr.get(instr.DeferStack); into != nil {
			defers = into.(**deferred)
		}
		*defers = &deferred{
			fn:    fn,
			args:  args,
			instr: instr,
			tail:  *defers,
		}

	case *ssa.Go:
		fn, args := prepareCall(fr, &instr.Call)
		fr.i.spawnAt(fn, args)

	case *ssa.MakeChan:
		fr.env[fr.slot(instr)] = &gchan{cap: int(asInt64(fr.get(instr.Size)))}

	case *ssa.Alloc:
		var addr *value
		if instr.Heap {
			// new
			addr = new(value)
			fr.env[fr.slot(instr)] = addr
		} else {
			// local
			addr = fr.env[fr.slot(instr)].(*value)
		}
		*addr = zero(typeparams.MustDeref(instr.Type()))

	case *ssa.MakeSlice:
		if fr.i.s.segMode && isByteSlice(instr.Type()) {
			cur := fr.i.s
			fr.env[fr.slot(instr)] = cur.makeBytes(cur.i64(fr.get(instr.Len)), cur.i64(fr.get(instr.Cap)))
			break
		}
		slice := fr.i.makeSlice(instr, fr.get(instr.Len), fr.get(instr.Cap))
		if slice != nil || true {
			fr.env[fr.slot(instr)] = slice
			break
		}
		slice = make([]value, asInt64(fr.get(instr.Cap)))
		tElt := instr.Type().Underlying().(*types.Slice).Elem()
		for i := range slice {
			slice[i] = zero(tElt)
		}
		fr.env[fr.slot(instr)] = slice[:asInt64(fr.get(instr.Len))]

	case *ssa.MakeMap:
		var reserve int64
		if instr.Reserve != nil {
			reserve = asInt64(fr.get(instr.Reserve))
		}
		if !fitsInt(reserve, fr.i.sizes) {
			panic(fmt.Sprintf("ssa.MakeMap.Reserve value %d does not fit in int", reserve))
		}
		fr.env[fr.slot(instr)] = makeMap(instr.Type().Underlying().(*types.Map).Key(), reserve)

	case *ssa.Range:
		fr.env[fr.slot(instr)] = rangeIter(fr, fr.get(instr.X), instr.X.Type())

	case *ssa.Next:
		fr.env[fr.slot(instr)] = fr.get(instr.Iter).(iter).next()

	case *ssa.FieldAddr:
		fr.env[fr.slot(instr)] = &(*fr.get(instr.X).(*value)).(structure)[instr.Field]

	case *ssa.Field:
		fr.env[fr.slot(instr)] = fr.get(instr.X).(structure)[instr.Field]

	case *ssa.IndexAddr:
		x := fr.get(instr.X)
		idx := fr.get(instr.Index)
		switch x := x.(type) {
		case bseg:
			cur := fr.i.s
			it := cur.i64(idx)
			cur.segIndexCheck(x.len, it)
			fr.env[fr.slot(instr)] = bptr{x, it}
		case []value:
			fr.env[fr.slot(instr)] = &x[fr.i.index(idx, len(x))]
		case *value: // *array
			a := (*x).(array)
			fr.env[fr.slot(instr)] = &a[fr.i.index(idx, len(a))]
		default:
			panic(fmt.Sprintf("unexpected x type in IndexAddr: %T", x))
		}

	case *ssa.Index:
		x := fr.get(instr.X)
		idx := fr.get(instr.Index)

		switch x := x.(type) {
		case array:
			fr.env[fr.slot(instr)] = x[fr.i.index(idx, len(x))]
		case string:
			fr.env[fr.slot(instr)] = x[fr.i.index(idx, len(x))]
		case symStr:
			fr.env[fr.slot(instr)] = x.b[fr.i.index(idx, len(x.b))]
		case bstr:
			cur := fr.i.s
			it := cur.i64(idx)
			cur.segIndexCheck(x.len, it)
			fr.env[fr.slot(instr)] = cur.byteVal(cur.bread(x.buf, x.ver, cur.add(x.off, it)))
		default:
			panic(fmt.Sprintf("unexpected x type in Index: %T", x))
		}

	case *ssa.Lookup:
		x, idx := fr.get(instr.X), fr.get(instr.Index)
		if ss, ok := idx.(symStr); ok {
			if m, ok := x.(map[value]value); ok {
				// a map keyed by concrete strings, looked up with a string that has symbolic
				// bytes: decide equality with each key of the same length (sorted order); if
				// none is equal the lookup misses
				var keys []string
				for k := range m {
					if ks, ok := k.(string); ok && len(ks) == len(ss.b) {
						keys = append(keys, ks)
					}
				}
				sort.Strings(keys)
				var hit value = missKey{}
				for _, k := range keys {
					if fr.i.decide(strCmp(token.EQL, k, ss)) {
						hit = k
						break
					}
				}
				idx = hit
			}
		}
		if sk, ok := idx.(sym); ok {
			if m, ok := x.(map[value]value); ok {
				// a map keyed by concrete scalars, looked up with a symbolic scalar: decide
				// equality with each key (deterministic order); otherwise the lookup misses
				kt := instr.X.Type().Underlying().(*types.Map).Key()
				var keys []value
				for k := range m {
					if !isSym(k) {
						keys = append(keys, k)
					}
				}
				sort.Slice(keys, func(a, b int) bool { return fmt.Sprint(keys[a]) < fmt.Sprint(keys[b]) })
				var hit value = missKey{}
				for _, k := range keys {
					if fr.i.decide(symBinop(token.EQL, kt, sk, k)) {
						hit = k
						break
					}
				}
				idx = hit
			}
		}
		fr.env[fr.slot(instr)] = lookup(instr, x, idx)

	case *ssa.MapUpdate:
		m := fr.get(instr.Map)
		key := fr.get(instr.Key)
		v := fr.get(instr.Value)
		switch m := m.(type) {
		case map[value]value:
			m[key] = v
		case *hashmap:
			m.insert(key.(hashable), v)
		default:
			panic(fmt.Sprintf("illegal map type: %T", m))
		}

	case *ssa.TypeAssert:
		fr.env[fr.slot(instr)] = typeAssert(fr.i, instr, fr.get(instr.X).(iface))

	case *ssa.MakeClosure:
		var bindings []value
		for _, binding := range instr.Bindings {
			bindings = append(bindings, fr.get(binding))
		}
		fr.env[fr.slot(instr)] = &closure{instr.Fn.(*ssa.Function), bindings}

	case *ssa.Phi:
		log.Fatal("unreachable") // phis are processed at block entry

	case *ssa.Select:
		fr.env[fr.slot(instr)] = fr.i.doSelect(fr, instr)

	default:
		panic(fmt.Sprintf("unexpected instruction: %T", instr))
	}

	// if val, ok := instr.(ssa.Value); ok {
	// 	fmt.Println(toString(fr.env[val])) // debugging
	// }

	return kNext
}

// prepareCall determines the function value and argument values for a
// function call in a Call, Go or Defer instruction, performing
// interface method lookup if needed.
func prepareCall(fr *frame, call *ssa.CallCommon) (fn value, args []value) {
	v := fr.get(call.Value)
	if call.Method == nil {
		// Function call.
		fn = v
	} else {
		// Interface method invocation.
		recv := v.(iface)
		if recv.t == nil {
			panic("method invoked on nil interface")
		}
		if f := lookupMethod(fr.i, recv.t, call.Method); f == nil {
			// Unreachable in well-typed programs.
			panic(fmt.Sprintf("method set for dynamic type %v does not contain %s", recv.t, call.Method))
		} else {
			fn = f
		}
		args = append(args, recv.v)
	}
	for _, arg := range call.Args {
		args = append(args, fr.get(arg))
	}
	return
}

// call interprets a call to a function (function, builtin or closure)
// fn with arguments args, returning its result.
// callpos is the position of the callsite.
func call(i *interpreter, caller *frame, callpos token.Pos, fn value, args []value) value {
	switch fn := fn.(type) {
	case *ssa.Function:
		if fn == nil {
			panic("call of nil function") // nil of func type
		}
		return callSSA(i, caller, callpos, fn, args, nil)
	case *closure:
		return callSSA(i, caller, callpos, fn.Fn, args, fn.Env)
	case *ssa.Builtin:
		return callBuiltin(caller, callpos, fn, args)
	case *extClosure:
		return fn.fn(args)
	}
	panic(fmt.Sprintf("cannot call %T", fn))
}

func loc(fset *token.FileSet, pos token.Pos) string {
	if pos == token.NoPos {
		return ""
	}
	return " at " + fset.Position(pos).String()
}

// callSSA interprets a call to function fn with arguments args,
// and lexical environment env, returning its result.
// callpos is the position of the callsite.
func callSSA(i *interpreter, caller *frame, callpos token.Pos, fn *ssa.Function, args []value, env []value) value {
	if i.mode&EnableTracing != 0 {
		fset := fn.Prog.Fset
		// TODO(adonovan): fix: loc() lies for external functions.
		fmt.Fprintf(os.Stderr, "Entering %s%s.\n", fn, loc(fset, fn.Pos()))
		suffix := ""
		if caller != nil {
			suffix = ", resuming " + caller.fn.String() + loc(fset, callpos)
		}
		defer fmt.Fprintf(os.Stderr, "Leaving %s%s.\n", fn, suffix)
	}
	fr := &frame{
		i:      i,
		caller: caller, // for panic/recover
		fn:     fn,
	}
	if traceCalls {
		fmt.Fprintln(os.Stderr, "ENTER", fn.String())
	}
	if fn.Synthetic == "package initializer" && fn.Pkg != nil {
		if !i.cfg.initAllowed(fn.Pkg.Pkg.Path()) {
			return nil
		}
	}
	if fn.Parent() == nil {
		ext, seen := i.extCache[fn]
		if !seen {
			name := fn.String()
			if r, ok := i.cfg.Replace[name]; ok {
				i.replCache[fn] = i.cfg.resolve(i.prog, r)
			}
			ext = externals[name]
			i.extCache[fn] = ext
		}
		if r := i.replCache[fn]; r != nil {
			return callSSA(i, caller, callpos, r, args, nil)
		}
		if ext != nil {
			return ext(fr, args)
		}
		if fn.Blocks == nil {
			panic(unsupported{"no code for function: " + fn.String()})
		}
	}
	if i.isCodeUnderTest(fn) {
		i.cov[fn]++
	}

	// generic function body?
	if fn.TypeParams().Len() > 0 && len(fn.TypeArgs()) == 0 {
		panic("interp requires ssa.BuilderMode to include InstantiateGenerics to execute generics")
	}

	fr.info = infoOf(fn)
	fr.env = make([]value, fr.info.n)
	fr.block = fn.Blocks[0]
	fr.locals = make([]value, len(fn.Locals))
	for i, l := range fn.Locals {
		fr.locals[i] = zero(typeparams.MustDeref(l.Type()))
		fr.env[fr.slot(l)] = &fr.locals[i]
	}
	for i, p := range fn.Params {
		fr.env[fr.slot(p)] = args[i]
	}
	for i, fv := range fn.FreeVars {
		fr.env[fr.slot(fv)] = env[i]
	}
	for fr.block != nil {
		runFrame(fr)
	}
	// Destroy the locals to avoid accidental use after return.
	for i := range fn.Locals {
		fr.locals[i] = bad{}
	}
	return fr.result
}

// runFrame executes SSA instructions starting at fr.block and
// continuing until a return, a panic, or a recovered panic.
//
// After a panic, runFrame panics.
//
// After a normal return, fr.result contains the result of the call
// and fr.block is nil.
//
// A recovered panic in a function without named return parameters
// (NRPs) becomes a normal return of the zero value of the function's
// result type.
//
// After a recovered panic in a function with NRPs, fr.result is
// undefined and fr.block contains the block at which to resume
// control.
func runFrame(fr *frame) {
	defer func() {
		if fr.block == nil {
			return // normal return
		}
		if fr.i.mode&DisableRecover != 0 {
			return // let interpreter crash
		}
		p := recover()
		if isControlPanic(p) {
			fr.block = nil
			panic(p)
		}
		fr.panicking = true
		fr.panic = p
		if fr.i.mode&EnableTracing != 0 {
			fmt.Fprintf(os.Stderr, "Panicking: %T %v.\n", fr.panic, fr.panic)
		}
		fr.runDefers()
		fr.block = fr.fn.Recover
	}()

	for {
		if fr.i.mode&EnableTracing != 0 {
			fmt.Fprintf(os.Stderr, ".%s:\n", fr.block)
		}

		nonPhis := executePhis(fr)
		for _, instr := range nonPhis {
			if fr.i.mode&EnableTracing != 0 {
				if v, ok := instr.(ssa.Value); ok {
					fmt.Fprintln(os.Stderr, "\t", v.Name(), "=", instr)
				} else {
					fmt.Fprintln(os.Stderr, "\t", instr)
				}
			}
			fr.i.steps++
			if fr.i.steps > fr.i.maxSteps {
				panic(budgetExceeded{})
			}
			if visitInstr(fr, instr) == kReturn {
				return
			}
			// Inv: kNext (continue) or kJump (last instr)
		}
	}
}

// executePhis executes the phi-nodes at the start of the current
// block and returns the non-phi instructions.
func executePhis(fr *frame) []ssa.Instruction {
	firstNonPhi := -1
	for i, instr := range fr.block.Instrs {
		if _, ok := instr.(*ssa.Phi); !ok {
			firstNonPhi = i
			break
		}
	}
	// Inv: 0 <= firstNonPhi; every block contains a non-phi.

	nonPhis := fr.block.Instrs[firstNonPhi:]
	if firstNonPhi > 0 {
		phis := fr.block.Instrs[:firstNonPhi]
		// Execute parallel assignment of phis.
		//
		// See "the swap problem" in Briggs et al's "Practical Improvements
		// to the Construction and Destruction of SSA Form" for discussion.
		predIndex := slices.Index(fr.block.Preds, fr.prevBlock)
		fr.phitemps = fr.phitemps[:0]
		for _, phi := range phis {
			phi := phi.(*ssa.Phi)
			if fr.i.mode&EnableTracing != 0 {
				fmt.Fprintln(os.Stderr, "\t", phi.Name(), "=", phi)
			}
			fr.phitemps = append(fr.phitemps, fr.get(phi.Edges[predIndex]))
		}
		for i, phi := range phis {
			fr.env[fr.slot(phi.(*ssa.Phi))] = fr.phitemps[i]
		}
	}
	return nonPhis
}

// doRecover implements the recover() built-in.
func doRecover(caller *frame) value {
	// recover() must be exactly one level beneath the deferred
	// function (two levels beneath the panicking function) to
	// have any effect.  Thus we ignore both "defer recover()" and
	// "defer f() -> g() -> recover()".
	if caller.i.mode&DisableRecover == 0 &&
		caller != nil && !caller.panicking &&
		caller.caller != nil && caller.caller.panicking {
		caller.caller.panicking = false
		p := caller.caller.panic
		caller.caller.panic = nil

		// TODO(adonovan): support runtime.Goexit.
		switch p := p.(type) {
		case targetPanic:
			// The target program explicitly called panic().
			return p.v
		case runtime.Error:
			// The interpreter encountered a runtime error.
			return iface{caller.i.runtimeErrorString, p.Error()}
		case string:
			// The interpreter explicitly called panic().
			return iface{caller.i.runtimeErrorString, p}
		default:
			panic(fmt.Sprintf("unexpected panic type %T in target call to recover()", p))
		}
	}
	return iface{}
}

// Interpret interprets the Go program whose main package is mainpkg.
// mode specifies various interpreter options.  filename and args are
// the initial values of os.Args for the target program.  sizes is the
// effective type-sizing function for this program.
//
// Interpret returns the exit code of the program: 2 for panic (like
// gc does), or the argument to os.Exit for normal termination.
//
// The SSA program must include the "runtime" package.
//
// Type parameterized functions must have been built with
// InstantiateGenerics in the ssa.BuilderMode to be interpreted.
func Interpret(mainpkg *ssa.Package, mode Mode, sizes types.Sizes, filename string, args []string) (exitCode int) {
	i := &interpreter{
		prog:       mainpkg.Prog,
		globals:    make(map[*ssa.Global]*value),
		mode:       mode,
		sizes:      sizes,
		goroutines: 1,
	}
	runtimePkg := i.prog.ImportedPackage("runtime")
	if runtimePkg == nil {
		panic("ssa.Program doesn't include runtime package")
	}
	i.runtimeErrorString = runtimePkg.Type("errorString").Object().Type()

	initReflect(i)

	i.osArgs = append(i.osArgs, filename)
	for _, arg := range args {
		i.osArgs = append(i.osArgs, arg)
	}

	for _, pkg := range i.prog.AllPackages() {
		// Initialize global storage.
		for _, m := range pkg.Members {
			switch v := m.(type) {
			case *ssa.Global:
				cell := zero(typeparams.MustDeref(v.Type()))
				i.globals[v] = &cell
			}
		}
	}

	// Top-level error handler.
	exitCode = 2
	defer func() {
		if exitCode != 2 || i.mode&DisableRecover != 0 {
			return
		}
		switch p := recover().(type) {
		case exitPanic:
			exitCode = int(p)
			return
		case targetPanic:
			fmt.Fprintln(os.Stderr, "panic:", toString(p.v))
		case runtime.Error:
			fmt.Fprintln(os.Stderr, "panic:", p.Error())
		case string:
			fmt.Fprintln(os.Stderr, "panic:", p)
		default:
			fmt.Fprintf(os.Stderr, "panic: unexpected type: %T: %v\n", p, p)
		}

		// TODO(adonovan): dump panicking interpreter goroutine?
		// buf := make([]byte, 0x10000)
		// runtime.Stack(buf, false)
		// fmt.Fprintln(os.Stderr, string(buf))
		// (Or dump panicking target goroutine?)
	}()

	// Run!
	call(i, nil, token.NoPos, mainpkg.Func("init"), nil)
	if mainFn := mainpkg.Func("main"); mainFn != nil {
		call(i, nil, token.NoPos, mainFn, nil)
		exitCode = 0
	} else {
		fmt.Fprintln(os.Stderr, "No main function.")
		exitCode = 1
	}
	return
}

func isByteSlice(t types.Type) bool {
	sl, ok := t.Underlying().(*types.Slice)
	if !ok {
		return false
	}
	b, ok := sl.Elem().Underlying().(*types.Basic)
	return ok && b.Kind() == types.Uint8
}

// global returns the cell of a package-level variable, creating it on first use.
// Non-target (stdlib, third-party) globals start from the value they had after
// package initialisation in the shared template interpreter (top-level copy);
// target globals start from zero and are initialised by re-running the target
// packages' init functions on every path.
func (i *interpreter) global(g *ssa.Global) *value {
	if r, ok := i.globals[g]; ok {
		return r
	}
	if i.tmpl != nil && (g.Pkg == nil || !i.cfg.isTargetInit(g.Pkg.Pkg.Path())) {
		if t, ok := i.tmpl.globals[g]; ok {
			cell := *t
			i.globals[g] = &cell
			return &cell
		}
	}
	cell := zero(typeparams.MustDeref(g.Type()))
	i.globals[g] = &cell
	return &cell
}

// fnInfo assigns a dense slot number to every SSA value of a function, so that
// a frame's environment is a slice instead of a map.
type fnInfo struct {
	slots map[ssa.Value]int
	n     int
}

var fnInfos sync.Map // *ssa.Function -> *fnInfo

func infoOf(fn *ssa.Function) *fnInfo {
	if v, ok := fnInfos.Load(fn); ok {
		return v.(*fnInfo)
	}
	inf := &fnInfo{slots: map[ssa.Value]int{}}
	add := func(v ssa.Value) {
		if _, ok := inf.slots[v]; !ok {
			inf.slots[v] = inf.n
			inf.n++
		}
	}
	for _, p := range fn.Params {
		add(p)
	}
	for _, fv := range fn.FreeVars {
		add(fv)
	}
	for _, l := range fn.Locals {
		add(l)
	}
	for _, b := range fn.Blocks {
		for _, ins := range b.Instrs {
			if v, ok := ins.(ssa.Value); ok {
				add(v)
			}
		}
	}
	if fn.Recover != nil {
		for _, ins := range fn.Recover.Instrs {
			if v, ok := ins.(ssa.Value); ok {
				add(v)
			}
		}
	}
	v, _ := fnInfos.LoadOrStore(fn, inf)
	return v.(*fnInfo)
}

func (fr *frame) slot(v ssa.Value) int { return fr.info.slots[v] }

// sameValue: a store that leaves the cell unchanged (e.g. the self-assignment go/ssa
// emits for `return namedResult`) is not recorded as a write.
func sameValue(a, b value) (eq bool) {
	defer func() {
		if recover() != nil {
			eq = false
		}
	}()
	switch a.(type) {
	case *gchan, *value, bool, int, int8, int16, int32, int64, uint, uint8, uint16, uint32, uint64, uintptr, string:
		return a == b
	}
	return false
}

// missKey is a map key that equals no real key (used for lookups with a symbolic
// string that was decided to differ from every key).
type missKey struct{}
