package interp

// Deterministic cooperative scheduler for interpreted goroutines, and the
// channel / select / sync primitives built on it.
//
// Every interpreted goroutine runs on its own Go goroutine, but only the one
// holding the baton executes; the others are parked on their wake channel.
// Switches happen only at blocking operations, so a path is a deterministic
// function of its decision list.

import (
	"os"
	"runtime/debug"
	"fmt"
	"go/types"
	"sync"

	"golang.org/x/tools/go/ssa"
)

type gor struct {
	id      int
	wake    chan struct{}
	done    bool
	blocked bool
	stamp   uint64 // sched.progress when it last blocked
}

type sched struct {
	gs       []*gor
	cur      *gor
	progress uint64
	dead     bool
	fatal    interface{} // panic value that ends the path (from a non-main goroutine, or deadlock)
	wg       sync.WaitGroup
	wgs      map[*value]*wgState
	mus      map[*value]*muState
	onces    map[*value]bool
	schedChoice bool // select / wakeup order are choice points
	closeYield  bool // with schedChoice: closing a channel is a scheduling point too
	tickerTicks int  // ticks every time.Ticker can still deliver when created
	files       map[*value]*memFile
	fileOrder   []*value
	hashes      []hashCall
	selRot      int
}

type wgState struct{ n int }
type muState struct {
	locked  bool
	readers int
}

var traceStack = os.Getenv("GS_STACK") != ""

type killed struct{}
type deadlock struct{ desc string }

func newSched() *sched {
	sc := &sched{wgs: map[*value]*wgState{}, mus: map[*value]*muState{}, onces: map[*value]bool{}}
	g := &gor{id: 0, wake: make(chan struct{}, 1)}
	sc.gs = []*gor{g}
	sc.cur = g
	return sc
}

func (sc *sched) bump() { sc.progress++ }

// pick returns the next runnable goroutine after g (round robin), or nil.
func (sc *sched) pick(g *gor) *gor {
	n := len(sc.gs)
	start := 0
	for i, x := range sc.gs {
		if x == g {
			start = i
		}
	}
	for k := 1; k <= n; k++ {
		x := sc.gs[(start+k)%n]
		if x.done {
			continue
		}
		if !x.blocked || x.stamp < sc.progress {
			return x
		}
	}
	return nil
}

// yield gives up the baton. blocked tells that g cannot proceed until some
// other goroutine changes shared state.
func (i *interpreter) yield(blocked bool) {
	sc := i.sc
	g := sc.cur
	g.blocked = blocked
	g.stamp = sc.progress
	next := sc.pick(g)
	if next == nil {
		panic(deadlock{sc.describe()})
	}
	if sc.schedChoice {
		// which runnable goroutine continues is a choice point
		var cands []*gor
		for _, x := range sc.gs {
			if !x.done && (!x.blocked || x.stamp < sc.progress) {
				cands = append(cands, x)
			}
		}
		if len(cands) > 1 {
			next = cands[i.s.choose(len(cands))]
		}
	}
	if next == g {
		g.blocked = false
		return
	}
	sc.cur = next
	next.wake <- struct{}{}
	<-g.wake
	if sc.dead {
		panic(killed{})
	}
	g.blocked = false
}

func (sc *sched) describe() string {
	n := 0
	for _, g := range sc.gs {
		if !g.done {
			n++
		}
	}
	return fmt.Sprintf("all %d live goroutines are blocked", n)
}

func (i *interpreter) spawnAt(fn value, args []value) {
	goEv := -1
	if i.evlog != nil {
		goEv = i.ev(evGo).id
	}
	i.spawn(fn, args, goEv)
}

// spawn starts an interpreted goroutine running fn(args).
func (i *interpreter) spawn(fn value, args []value, goEv int) {
	sc := i.sc
	g := &gor{id: len(sc.gs), wake: make(chan struct{}, 1)}
	sc.gs = append(sc.gs, g)
	sc.bump()
	sc.wg.Add(1)
	go func() {
		defer sc.wg.Done()
		<-g.wake
		if sc.dead {
			return
		}
		defer func() {
			r := recover()
			g.done = true
			sc.bump()
			if _, ok := r.(killed); ok {
				return
			}
			if r != nil && sc.fatal == nil {
				sc.fatal = r
				if traceStack {
					fmt.Fprintf(os.Stderr, "goroutine %d ended with %v\n%s\n", g.id, r, debug.Stack())
				}
			}
			if sc.dead {
				return
			}
			if sc.fatal != nil {
				// end the path: wake the main goroutine, which unwinds with killed{}
				sc.dead = true
				sc.cur = sc.gs[0]
				sc.gs[0].wake <- struct{}{}
				return
			}
			next := sc.pick(g)
			if next == nil {
				sc.fatal = deadlock{sc.describe()}
				sc.dead = true
				sc.cur = sc.gs[0]
				sc.gs[0].wake <- struct{}{}
				return
			}
			sc.cur = next
			next.wake <- struct{}{}
		}()
		if i.evlog != nil {
			e := i.ev(evStart)
			e.link = goEv
		}
		call(i, nil, 0, fn, args)
	}()
}

// shutdown is called by the main goroutine when the path ends; it releases
// every parked goroutine and waits for them to unwind.
func (sc *sched) shutdown() {
	sc.dead = true
	for _, g := range sc.gs[1:] {
		if !g.done {
			select {
			case g.wake <- struct{}{}:
			default:
			}
		}
	}
	sc.wg.Wait()
}

// ---- channels ----

type gchan struct {
	cap       int
	buf       []value
	closed    bool
	slotFull  bool
	slot      value
	slotOwner *gor
	recvWait  int
	ticks     int   // ticker channel: ticks that may still be delivered (a tick is ready whenever asked for)
	tickVal   value // the time.Time delivered by a tick
}

func (i *interpreter) chanSend(ch *gchan, v value) {
	sc := i.sc
	if ch == nil {
		for {
			i.yield(true)
		}
	}
	if ch.cap > 0 {
		for len(ch.buf) >= ch.cap && !ch.closed {
			i.yield(true)
		}
		if ch.closed {
			panic(runtimeErrPlain("send on closed channel"))
		}
		ch.buf = append(ch.buf, v)
		if i.evlog != nil {
			e := i.ev(evSend)
			e.obj = ch
			i.evlog.lastSend[ch] = append(i.evlog.lastSend[ch], e.id)
		}
		sc.bump()
		return
	}
	for ch.slotFull && !ch.closed {
		i.yield(true)
	}
	if ch.closed {
		panic(runtimeErrPlain("send on closed channel"))
	}
	me := sc.cur
	ch.slot, ch.slotFull, ch.slotOwner = v, true, me
	if i.evlog != nil {
		e := i.ev(evSend)
		e.obj = ch
		i.evlog.lastSend[ch] = append(i.evlog.lastSend[ch], e.id)
	}
	sc.bump()
	for ch.slotFull && ch.slotOwner == me && !ch.closed {
		i.yield(true)
	}
	if ch.slotFull && ch.slotOwner == me && ch.closed {
		panic(runtimeErrPlain("send on closed channel"))
	}
}

func (i *interpreter) chanRecv(ch *gchan) (value, bool) {
	sc := i.sc
	if ch == nil {
		for {
			i.yield(true)
		}
	}
	registered := false
	defer func() {
		if registered {
			ch.recvWait--
		}
	}()
	for {
		if v, ok, got := ch.tryRecv(sc); got {
			i.recvEvent(ch, ok)
			if i.evlog != nil && ok {
				// race mode: let the other goroutines run after a successful receive, so that the
				// recorded skeleton spreads the work over the consumers instead of letting the
				// first one drain the channel
				i.yield(false)
			}
			return v, ok
		}
		if !registered {
			registered = true
			ch.recvWait++
			sc.bump()
		}
		i.yield(true)
	}
}

func (ch *gchan) tryRecv(sc *sched) (v value, ok bool, got bool) {
	if ch.ticks > 0 && len(ch.buf) == 0 {
		ch.ticks--
		sc.bump()
		return ch.tickVal, true, true
	}
	if len(ch.buf) > 0 {
		v = ch.buf[0]
		ch.buf = ch.buf[1:]
		sc.bump()
		return v, true, true
	}
	if ch.slotFull {
		v = ch.slot
		ch.slot, ch.slotFull, ch.slotOwner = nil, false, nil
		sc.bump()
		return v, true, true
	}
	if ch.closed {
		return nil, false, true
	}
	return nil, false, false
}

func (i *interpreter) chanClose(ch *gchan) {
	if ch == nil {
		panic(runtimeErrPlain("close of nil channel"))
	}
	if ch.closed {
		panic(runtimeErrPlain("close of closed channel"))
	}
	ch.closed = true
	if i.evlog != nil {
		e := i.ev(evClose)
		e.obj = ch
		i.evlog.closeEv[ch] = e.id
	}
	i.sc.bump()
	if i.sc.schedChoice && i.sc.closeYield {
		// closing a channel wakes its receivers: with scheduler exploration on, who runs
		// next (the closer or a woken goroutine) is a choice point
		i.yield(false)
	}
}

func (i *interpreter) recvEvent(ch *gchan, ok bool) {
	if i.evlog == nil {
		return
	}
	e := i.ev(evRecv)
	e.obj = ch
	if ok {
		if q := i.evlog.lastSend[ch]; len(q) > 0 {
			e.link = q[0]
			i.evlog.lastSend[ch] = q[1:]
		}
	} else if c, has := i.evlog.closeEv[ch]; has {
		e.link = c
	}
}

// runtimeErrPlain is a Go runtime panic whose message has no "runtime error: " prefix.
type runtimeErrPlain string

func (e runtimeErrPlain) Error() string { return string(e) }
func (e runtimeErrPlain) RuntimeError() {}

func (i *interpreter) doSelect(fr *frame, instr *ssa.Select) value {
	sc := i.sc
	type cs struct {
		ch   *gchan
		send bool
		v    value
	}
	cases := make([]cs, len(instr.States))
	for k, st := range instr.States {
		c := cs{}
		if x := fr.get(st.Chan); x != nil {
			c.ch, _ = x.(*gchan)
		}
		if st.Dir == types.SendOnly {
			c.send = true
			c.v = fr.get(st.Send)
		}
		cases[k] = c
	}
	for {
		var ready []int
		for k, c := range cases {
			if c.ch == nil {
				continue
			}
			if c.send {
				if c.ch.closed || len(c.ch.buf) < c.ch.cap || (c.ch.cap == 0 && !c.ch.slotFull && c.ch.recvWait > 0) {
					ready = append(ready, k)
				}
			} else if len(c.ch.buf) > 0 || c.ch.slotFull || c.ch.closed || c.ch.ticks > 0 {
				ready = append(ready, k)
			}
		}
		if len(ready) > 0 {
			sc.selRot++
			pick := ready[sc.selRot%len(ready)]
			if sc.schedChoice && len(ready) > 1 {
				pick = ready[i.s.choose(len(ready))]
			}
			c := cases[pick]
			var rv value
			rok := false
			if c.send {
				i.chanSend(c.ch, c.v)
			} else {
				rv, rok, _ = c.ch.tryRecv(sc)
				i.recvEvent(c.ch, rok)
			}
			r := tuple{pick, rok}
			for k, st := range instr.States {
				if st.Dir == types.RecvOnly {
					var v value
					if k == pick && rok {
						v = rv
					} else {
						v = zero(st.Chan.Type().Underlying().(*types.Chan).Elem())
					}
					r = append(r, v)
				}
			}
			return r
		}
		if !instr.Blocking {
			r := tuple{-1, false}
			for _, st := range instr.States {
				if st.Dir == types.RecvOnly {
					r = append(r, zero(st.Chan.Type().Underlying().(*types.Chan).Elem()))
				}
			}
			return r
		}
		i.yield(true)
	}
}

// ---- sync primitives (keyed by the address of the struct) ----

func init() {
	externals["(*sync.WaitGroup).Add"] = func(fr *frame, a []value) value {
		sc := fr.i.sc
		p := a[0].(*value)
		st := sc.wgs[p]
		if st == nil {
			st = &wgState{}
			sc.wgs[p] = st
		}
		st.n += int(asInt64(a[1]))
		if st.n < 0 {
			panic(targetPanic{"sync: negative WaitGroup counter"})
		}
		sc.bump()
		return nil
	}
	externals["(*sync.WaitGroup).Done"] = func(fr *frame, a []value) value {
		sc := fr.i.sc
		p := a[0].(*value)
		st := sc.wgs[p]
		if st == nil {
			st = &wgState{}
			sc.wgs[p] = st
		}
		st.n--
		if st.n < 0 {
			panic(targetPanic{"sync: negative WaitGroup counter"})
		}
		if fr.i.evlog != nil {
			e := fr.i.ev(evDone)
			e.obj = p
			fr.i.evlog.dones[p] = append(fr.i.evlog.dones[p], e.id)
		}
		sc.bump()
		return nil
	}
	externals["(*sync.WaitGroup).Wait"] = func(fr *frame, a []value) value {
		sc := fr.i.sc
		p := a[0].(*value)
		for {
			st := sc.wgs[p]
			if st == nil || st.n == 0 {
				if fr.i.evlog != nil {
					e := fr.i.ev(evWait)
					e.obj = p
					e.links = append([]int{}, fr.i.evlog.dones[p]...)
				}
				return nil
			}
			fr.i.yield(true)
		}
	}
	lock := func(fr *frame, a []value) value {
		sc := fr.i.sc
		p := a[0].(*value)
		st := sc.mus[p]
		if st == nil {
			st = &muState{}
			sc.mus[p] = st
		}
		if sc.schedChoice && fr.caller != nil && fr.i.isCodeUnderTest(fr.caller.fn) {
			fr.i.yield(false) // a lock taken by the code under test is a scheduling point when schedules are explored
		}
		for st.locked || st.readers > 0 {
			fr.i.yield(true)
		}
		st.locked = true
		if fr.i.evlog != nil {
			e := fr.i.ev(evLock)
			e.obj = p
		}
		return nil
	}
	unlock := func(fr *frame, a []value) value {
		sc := fr.i.sc
		p := a[0].(*value)
		st := sc.mus[p]
		if st == nil || !st.locked {
			panic(targetPanic{"sync: unlock of unlocked mutex"})
		}
		st.locked = false
		if fr.i.evlog != nil {
			e := fr.i.ev(evUnlock)
			e.obj = p
		}
		sc.bump()
		return nil
	}
	externals["(*sync.Mutex).Lock"] = lock
	externals["(*sync.Mutex).Unlock"] = unlock
	externals["(*sync.RWMutex).Lock"] = lock
	externals["(*sync.RWMutex).Unlock"] = unlock
	externals["(*sync.RWMutex).RLock"] = func(fr *frame, a []value) value {
		sc := fr.i.sc
		p := a[0].(*value)
		st := sc.mus[p]
		if st == nil {
			st = &muState{}
			sc.mus[p] = st
		}
		for st.locked {
			fr.i.yield(true)
		}
		st.readers++
		return nil
	}
	externals["(*sync.RWMutex).RUnlock"] = func(fr *frame, a []value) value {
		sc := fr.i.sc
		p := a[0].(*value)
		st := sc.mus[p]
		if st == nil || st.readers <= 0 {
			panic(targetPanic{"sync: RUnlock of unlocked RWMutex"})
		}
		st.readers--
		sc.bump()
		return nil
	}
	externals["(*sync.Once).Do"] = func(fr *frame, a []value) value {
		sc := fr.i.sc
		p := a[0].(*value)
		if sc.onces[p] {
			return nil
		}
		sc.onces[p] = true
		call(fr.i, fr, 0, a[1], nil)
		return nil
	}
	externals["runtime.Gosched"] = func(fr *frame, a []value) value { fr.i.yield(false); return nil }
	externals["time.Sleep"] = func(fr *frame, a []value) value { fr.i.yield(false); return nil }
	// Tickers and timers never fire within a run: the channel exists and stays empty.
	// (wrgl uses them for progress reporting only; listed as a stub by the harnesses.)
	// With the obligation option ticker_ticks = k a Ticker delivers up to k ticks, each one
	// ready whenever a goroutine asks (time is not modelled: a tick can fall between any two
	// steps of the other goroutines, and which select case wins is the scheduler's choice).
	newTick := func(fr *frame, a []value) value {
		var v value = structure{&gchan{cap: 1}, true}
		return &v
	}
	externals["time.NewTicker"] = func(fr *frame, a []value) value {
		ch := &gchan{cap: 1}
		if k := fr.i.sc.tickerTicks; k > 0 {
			if tp := fr.i.prog.ImportedPackage("time"); tp != nil {
				ch.ticks = k
				ch.tickVal = zero(tp.Type("Time").Type())
			}
		}
		var v value = structure{ch, true}
		return &v
	}
	externals["time.NewTimer"] = newTick
	externals["(*time.Ticker).Stop"] = func(fr *frame, a []value) value {
		if p, ok := a[0].(*value); ok && p != nil {
			if st, ok := (*p).(structure); ok && len(st) > 0 {
				if ch, ok := st[0].(*gchan); ok {
					ch.ticks = 0
				}
			}
		}
		return nil
	}
	externals["(*time.Ticker).Reset"] = func(fr *frame, a []value) value { return nil }
	externals["(*time.Timer).Stop"] = func(fr *frame, a []value) value { return true }
	externals["(*time.Timer).Reset"] = func(fr *frame, a []value) value { return true }
}

// reflect.Select over interpreted channels (recv cases and default only, which is
// what the merger uses).
func init() {
	externals["reflect.Select"] = func(fr *frame, a []value) value {
		i := fr.i
		sc := i.sc
		cases := a[0].([]value)
		type rc struct {
			dir int64
			ch  *gchan
			et  types.Type
			t   rtype
		}
		rcs := make([]rc, len(cases))
		hasDefault := -1
		for k, c := range cases {
			st := c.(structure)
			r := rc{dir: asInt64(st[0])}
			if r.dir == 3 { // SelectDefault
				hasDefault = k
			} else {
				chv := st[1]
				if sv, ok := chv.(structure); ok && len(sv) == 2 && sv[1] != nil {
					r.ch, _ = rV2V(chv).(*gchan)
					r.t = rV2T(chv)
					if ct, ok := r.t.t.Underlying().(*types.Chan); ok {
						r.et = ct.Elem()
					}
				}
				if r.dir == 1 {
					panic(unsupported{"reflect.Select with a send case"})
				}
			}
			rcs[k] = r
		}
		for {
			var ready []int
			for k, r := range rcs {
				if r.dir == 2 && r.ch != nil && (len(r.ch.buf) > 0 || r.ch.slotFull || r.ch.closed || r.ch.ticks > 0) {
					ready = append(ready, k)
				}
			}
			if len(ready) > 0 {
				// deterministic but fair: rotate among the ready cases (Go picks at random; a
				// closed channel is always ready and must not starve the others)
				sc.selRot++
				pick := ready[sc.selRot%len(ready)]
				if sc.schedChoice && len(ready) > 1 {
					pick = ready[i.s.choose(len(ready))]
				}
				v, ok, _ := rcs[pick].ch.tryRecv(sc)
				i.recvEvent(rcs[pick].ch, ok)
				if !ok {
					v = zero(rcs[pick].et)
					// a closed channel is ready forever: a caller that loops on it (the
					// merger does) would never let the other goroutines run under the
					// cooperative scheduler
					i.yield(false)
				}
				return tuple{pick, makeReflectValue(rcs[pick].et, v), ok}
			}
			if hasDefault >= 0 {
				return tuple{hasDefault, structure{rtype{nil}, nil}, false}
			}
			i.yield(true)
		}
	}
}
