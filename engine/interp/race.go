package interp

// C16 interleaving part: predictive race analysis with order variables.
//
// During one cooperative execution the interpreter records, per interpreted
// goroutine, the events of the code under test: reads and writes of heap cells
// (by address), channel send / receive / close, WaitGroup Done / Wait, Mutex
// Lock / Unlock, and `go`. The SMT problem has one integer order variable per
// event and constraints for program order, fork, channel pairing (a receive
// follows the send it got its value from, or the close that made it return),
// WaitGroup (Wait returns after the Dones it observed) and mutual exclusion of
// critical sections. For every pair of conflicting accesses (same cell, at
// least one write, different goroutines) the query "is there an order that puts
// them next to each other" is asked; sat = the two accesses are not ordered by
// any synchronisation = data race candidate (confirmed natively under -race).
//
// Bounded by the recorded skeleton: control flow that depends on racy values is
// not re-explored, and data-flow (read-from) constraints are not imposed.

import (
	"fmt"
	"go/token"
	"os"
	"os/exec"
	"sort"
	"strings"

	"golang.org/x/tools/go/ssa"
)

type evKind int

const (
	evRead evKind = iota
	evWrite
	evSend
	evRecv
	evClose
	evGo
	evStart
	evDone
	evWait
	evLock
	evUnlock
)

type event struct {
	id    int
	g     int
	kind  evKind
	addr  *value
	obj   interface{} // channel / waitgroup / mutex identity
	link  int         // recv -> send/close id; start -> go id; -1 none
	links []int       // wait -> done ids
	pos   token.Pos
	desc  string
}

type eventLog struct {
	evs      []*event
	lastSend map[*gchan][]int // queue of send event ids per channel (FIFO)
	closeEv  map[*gchan]int
	dones    map[*value][]int
}

func newEventLog() *eventLog {
	return &eventLog{lastSend: map[*gchan][]int{}, closeEv: map[*gchan]int{}, dones: map[*value][]int{}}
}

func (i *interpreter) ev(kind evKind) *event {
	l := i.evlog
	e := &event{id: len(l.evs), g: i.sc.cur.id, kind: kind, link: -1}
	l.evs = append(l.evs, e)
	return e
}

// recordAccess is called for loads and stores executed by code under test.
func (i *interpreter) recordAccess(fr *frame, addr *value, write bool, pos token.Pos, what ssa.Value) {
	if i.evlog == nil || !i.isCodeUnderTest(fr.fn) {
		return
	}
	// only cells that can be shared: fields, slice/array elements, globals, heap allocations
	switch a := what.(type) {
	case *ssa.Alloc:
		if !a.Heap {
			return
		}
	case *ssa.FieldAddr, *ssa.IndexAddr, *ssa.Global, *ssa.FreeVar, *ssa.Parameter, *ssa.Phi, *ssa.UnOp, *ssa.Call, *ssa.Extract:
	default:
	}
	k := evRead
	if write {
		k = evWrite
	}
	e := i.ev(k)
	e.addr = addr
	e.pos = pos
	if fa, ok := what.(*ssa.FieldAddr); ok {
		st := fa.X.Type().Underlying()
		if p, ok := st.(interface{ Elem() interface{} }); ok {
			_ = p
		}
		e.desc = fieldName(fa)
	}
}

func fieldName(fa *ssa.FieldAddr) string {
	t := fa.X.Type().Underlying()
	if p, ok := t.(interface{ String() string }); ok {
		_ = p
	}
	return fmt.Sprintf("%s.#%d", fa.X.Type().String(), fa.Field)
}

// analyzeRaces builds and solves the order-variable problem; returns race descriptions.
func (i *interpreter) analyzeRaces() []string {
	l := i.evlog
	if l == nil || len(l.evs) == 0 {
		return nil
	}
	// keep only the memory events on cells touched by at least two goroutines, one of them writing
	{
		gs := map[*value]map[int]bool{}
		wr := map[*value]bool{}
		for _, e := range l.evs {
			if e.kind == evRead || e.kind == evWrite {
				if gs[e.addr] == nil {
					gs[e.addr] = map[int]bool{}
				}
				gs[e.addr][e.g] = true
				if e.kind == evWrite {
					wr[e.addr] = true
				}
			}
		}
		// per cell, goroutine and access kind only the first and the last access are kept
		// (stated bound of the analysis)
		type ck struct {
			a *value
			g int
			k evKind
		}
		first, last := map[ck]int{}, map[ck]int{}
		for _, e := range l.evs {
			if e.kind == evRead || e.kind == evWrite {
				k := ck{e.addr, e.g, e.kind}
				if _, ok := first[k]; !ok {
					first[k] = e.id
				}
				last[k] = e.id
			}
		}
		var kept []*event
		remap := map[int]int{}
		for _, e := range l.evs {
			if (e.kind == evRead || e.kind == evWrite) && (len(gs[e.addr]) < 2 || !wr[e.addr]) {
				continue
			}
			if e.kind == evRead || e.kind == evWrite {
				k := ck{e.addr, e.g, e.kind}
				if first[k] != e.id && last[k] != e.id {
					continue
				}
			}
			remap[e.id] = len(kept)
			kept = append(kept, e)
		}
		for _, e := range kept {
			if e.link >= 0 {
				e.link = remap[e.link]
			}
			for k, d := range e.links {
				e.links[k] = remap[d]
			}
			e.id = remap[e.id]
		}
		i.raceTotalEvents = len(l.evs)
		l.evs = kept
	}
	var sb strings.Builder
	n := len(l.evs)
	for k := 0; k < n; k++ {
		fmt.Fprintf(&sb, "(declare-const o%d Int)\n", k)
	}
	lt := func(a, b int) { fmt.Fprintf(&sb, "(assert (< o%d o%d))\n", a, b) }
	// program order
	last := map[int]int{}
	for _, e := range l.evs {
		if p, ok := last[e.g]; ok {
			lt(p, e.id)
		}
		last[e.g] = e.id
	}
	// fork, channel, waitgroup edges
	type cs struct{ lock, unlock int }
	sections := map[interface{}][]cs{}
	open := map[interface{}]map[int]int{}
	for _, e := range l.evs {
		switch e.kind {
		case evStart, evRecv:
			if e.link >= 0 {
				lt(e.link, e.id)
			}
		case evWait:
			for _, d := range e.links {
				lt(d, e.id)
			}
		case evLock:
			if open[e.obj] == nil {
				open[e.obj] = map[int]int{}
			}
			open[e.obj][e.g] = e.id
		case evUnlock:
			if lk, ok := open[e.obj][e.g]; ok {
				sections[e.obj] = append(sections[e.obj], cs{lk, e.id})
				delete(open[e.obj], e.g)
			}
		}
	}
	for _, secs := range sections {
		for a := 0; a < len(secs); a++ {
			for b := a + 1; b < len(secs); b++ {
				if l.evs[secs[a].lock].g == l.evs[secs[b].lock].g {
					continue
				}
				fmt.Fprintf(&sb, "(assert (or (< o%d o%d) (< o%d o%d)))\n", secs[a].unlock, secs[b].lock, secs[b].unlock, secs[a].lock)
			}
		}
	}
	// distinctness is not needed: adjacency is expressed as "no event strictly between"
	// candidate pairs
	byAddr := map[*value][]*event{}
	for _, e := range l.evs {
		if e.kind == evRead || e.kind == evWrite {
			byAddr[e.addr] = append(byAddr[e.addr], e)
		}
	}
	type pair struct{ a, b *event }
	var pairs []pair
	seenClass := map[string]bool{}
	addrs := make([]*value, 0, len(byAddr))
	for a := range byAddr {
		addrs = append(addrs, a)
	}
	sort.Slice(addrs, func(x, y int) bool { return byAddr[addrs[x]][0].id < byAddr[addrs[y]][0].id })
	for _, ad := range addrs {
		evs := byAddr[ad]
		for x := 0; x < len(evs); x++ {
			for y := x + 1; y < len(evs); y++ {
				a, b := evs[x], evs[y]
				if a.g == b.g || (a.kind == evRead && b.kind == evRead) {
					continue
				}
				key := fmt.Sprintf("%d/%d/%d", a.pos, b.pos, b.g*1000+a.g)
				if seenClass[key] {
					continue
				}
				seenClass[key] = true
				pairs = append(pairs, pair{a, b})
			}
		}
	}
	i.raceStats = fmt.Sprintf("events-recorded=%d events-on-shared-cells-or-sync=%d shared-cells=%d candidate-pairs=%d", i.raceTotalEvents, n, len(byAddr), len(pairs))
	if len(pairs) == 0 {
		return nil
	}
	if len(pairs) > 400 {
		pairs = pairs[:400]
	}
	base := sb.String()
	runZ3 := func(script string) []string {
		f, err := os.CreateTemp("", "gosymrace*.smt2")
		if err != nil {
			return nil
		}
		f.WriteString(script)
		f.Close()
		defer os.Remove(f.Name())
		out, _ := exec.Command("z3", f.Name()).Output()
		lines := strings.Fields(string(out))
		i.s.St.Queries += len(lines)
		return lines
	}
	// stage 1 (cheap, necessary condition): both orders of the two accesses are consistent
	var st1 strings.Builder
	st1.WriteString("(set-logic QF_IDL)\n")
	st1.WriteString(base)
	for _, p := range pairs {
		fmt.Fprintf(&st1, "(push 1)(assert (< o%d o%d))(check-sat)(pop 1)\n", p.a.id, p.b.id)
		fmt.Fprintf(&st1, "(push 1)(assert (< o%d o%d))(check-sat)(pop 1)\n", p.b.id, p.a.id)
	}
	l1 := runZ3(st1.String())
	var cand []pair
	for k, p := range pairs {
		if 2*k+1 < len(l1) && l1[2*k] == "sat" && l1[2*k+1] == "sat" {
			cand = append(cand, p)
		}
	}
	i.raceStats += fmt.Sprintf(" unordered-pairs=%d", len(cand))
	if len(cand) == 0 {
		return nil
	}
	pairs = cand
	// stage 2: a race = an order consistent with all synchronisation in which the two
	// accesses are adjacent (this is what mutual exclusion of critical sections forbids)
	var script strings.Builder
	script.WriteString("(set-logic QF_IDL)\n")
	script.WriteString(base)
	between := func(a, b int) {
		fmt.Fprintf(&script, "(push 1)(assert (< o%d o%d))", a, b)
		for e := 0; e < n; e++ {
			if e != a && e != b {
				fmt.Fprintf(&script, "(assert (or (< o%d o%d) (< o%d o%d)))", e, a, b, e)
			}
		}
		script.WriteString("(check-sat)(pop 1)\n")
	}
	for _, p := range pairs {
		between(p.a.id, p.b.id)
		between(p.b.id, p.a.id)
	}
	lines := runZ3(script.String())
	var races []string
	fset := i.prog.Fset
	for k, p := range pairs {
		if 2*k+1 >= len(lines) {
			break
		}
		if lines[2*k] == "sat" || lines[2*k+1] == "sat" {
			kind := func(e *event) string {
				if e.kind == evWrite {
					return "write"
				}
				return "read"
			}
			pa, pb := fset.Position(p.a.pos), fset.Position(p.b.pos)
			races = append(races, fmt.Sprintf("%s at %s:%d (goroutine %d) / %s at %s:%d (goroutine %d)", kind(p.a), shortFile(pa.Filename), pa.Line, p.a.g, kind(p.b), shortFile(pb.Filename), pb.Line, p.b.g))
		}
	}
	return races
}

func shortFile(f string) string {
	if k := strings.Index(f, "/pkg/"); k >= 0 {
		return f[k+1:]
	}
	if k := strings.Index(f, "/cmd/"); k >= 0 {
		return f[k+1:]
	}
	return f
}
