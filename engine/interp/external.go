// Copyright 2013 The Go Authors. All rights reserved.
// Use of this source code is governed by a BSD-style
// license that can be found in the LICENSE file.

package interp

// Emulated functions that we cannot interpret because they are
// external or because they use "unsafe" or "reflect" operations.

import (
	"bytes"
	"math"
	"os"
	"runtime"
	"sort"
	"strconv"
	"strings"
	"time"
	"unicode/utf8"
)

type externalFn func(fr *frame, args []value) value

// TODO(adonovan): fix: reflect.Value abstracts an lvalue or an
// rvalue; Set() causes mutations that can be observed via aliases.
// We have not captured that correctly here.

// Key strings are from Function.String().
var externals = make(map[string]externalFn)

func init() {
	// That little dot ۰ is an Arabic zero numeral (U+06F0), categories [Nd].
	for k, v := range map[string]externalFn{
		"(reflect.Value).Bool":            ext۰reflect۰Value۰Bool,
		"(reflect.Value).CanAddr":         ext۰reflect۰Value۰CanAddr,
		"(reflect.Value).CanInterface":    ext۰reflect۰Value۰CanInterface,
		"(reflect.Value).Elem":            ext۰reflect۰Value۰Elem,
		"(reflect.Value).Field":           ext۰reflect۰Value۰Field,
		"(reflect.Value).Float":           ext۰reflect۰Value۰Float,
		"(reflect.Value).Index":           ext۰reflect۰Value۰Index,
		"(reflect.Value).Int":             ext۰reflect۰Value۰Int,
		"(reflect.Value).Interface":       ext۰reflect۰Value۰Interface,
		"(reflect.Value).IsNil":           ext۰reflect۰Value۰IsNil,
		"(reflect.Value).IsValid":         ext۰reflect۰Value۰IsValid,
		"(reflect.Value).Kind":            ext۰reflect۰Value۰Kind,
		"(reflect.Value).Len":             ext۰reflect۰Value۰Len,
		"(reflect.Value).MapIndex":        ext۰reflect۰Value۰MapIndex,
		"(reflect.Value).MapKeys":         ext۰reflect۰Value۰MapKeys,
		"(reflect.Value).NumField":        ext۰reflect۰Value۰NumField,
		"(reflect.Value).NumMethod":       ext۰reflect۰Value۰NumMethod,
		"(reflect.Value).Pointer":         ext۰reflect۰Value۰Pointer,
		"(reflect.Value).Set":             ext۰reflect۰Value۰Set,
		"(reflect.Value).String":          ext۰reflect۰Value۰String,
		"(reflect.Value).Type":            ext۰reflect۰Value۰Type,
		"(reflect.Value).Uint":            ext۰reflect۰Value۰Uint,
		"(reflect.error).Error":           ext۰reflect۰error۰Error,
		"(reflect.rtype).Bits":            ext۰reflect۰rtype۰Bits,
		"(reflect.rtype).Elem":            ext۰reflect۰rtype۰Elem,
		"(reflect.rtype).Field":           ext۰reflect۰rtype۰Field,
		"(reflect.rtype).In":              ext۰reflect۰rtype۰In,
		"(reflect.rtype).Kind":            ext۰reflect۰rtype۰Kind,
		"(reflect.rtype).NumField":        ext۰reflect۰rtype۰NumField,
		"(reflect.rtype).NumIn":           ext۰reflect۰rtype۰NumIn,
		"(reflect.rtype).NumMethod":       ext۰reflect۰rtype۰NumMethod,
		"(reflect.rtype).NumOut":          ext۰reflect۰rtype۰NumOut,
		"(reflect.rtype).Out":             ext۰reflect۰rtype۰Out,
		"(reflect.rtype).Size":            ext۰reflect۰rtype۰Size,
		"(reflect.rtype).String":          ext۰reflect۰rtype۰String,
		"fmt.Sprint":                      ext۰fmt۰Sprint,
		"math.Abs":                        ext۰math۰Abs,
		"math.Copysign":                   ext۰math۰Copysign,
		"math.Exp":                        ext۰math۰Exp,
		"math.Float32bits":                ext۰math۰Float32bits,
		"math.Float32frombits":            ext۰math۰Float32frombits,
		"math.Float64bits":                ext۰math۰Float64bits,
		"math.Float64frombits":            ext۰math۰Float64frombits,
		"math.Inf":                        ext۰math۰Inf,
		"math.IsNaN":                      ext۰math۰IsNaN,
		"math.Ldexp":                      ext۰math۰Ldexp,
		"math.Log":                        ext۰math۰Log,
		"math.Min":                        ext۰math۰Min,
		"math.NaN":                        ext۰math۰NaN,
		"math.Sqrt":                       ext۰math۰Sqrt,
		"os.Exit":                         ext۰os۰Exit,
		"os.Getenv":                       ext۰os۰Getenv,
		"reflect.New":                     ext۰reflect۰New,
		"reflect.SliceOf":                 ext۰reflect۰SliceOf,
		"reflect.TypeOf":                  ext۰reflect۰TypeOf,
		"reflect.ValueOf":                 ext۰reflect۰ValueOf,
		"reflect.Zero":                    ext۰reflect۰Zero,
		"runtime.Breakpoint":              ext۰runtime۰Breakpoint,
		"runtime.GC":                      ext۰runtime۰GC,
		"runtime.GOMAXPROCS":              ext۰runtime۰GOMAXPROCS,
		"runtime.GOROOT":                  ext۰runtime۰GOROOT,
		"runtime.Goexit":                  ext۰runtime۰Goexit,
		"runtime.Gosched":                 ext۰runtime۰Gosched,
		"runtime.NumCPU":                  ext۰runtime۰NumCPU,
		"sort.Float64s":                   ext۰sort۰Float64s,
		"sort.Ints":                       ext۰sort۰Ints,
		"sort.Strings":                    ext۰sort۰Strings,
		"strconv.Atoi":                    ext۰strconv۰Atoi,
		"strconv.Itoa":                    ext۰strconv۰Itoa,
		"strconv.FormatFloat":             ext۰strconv۰FormatFloat,
		"time.Sleep":                      ext۰time۰Sleep,
		"unicode/utf8.DecodeRuneInString": ext۰unicode۰utf8۰DecodeRuneInString,
	} {
		externals[k] = v
	}
}

func ext۰bytes۰Equal(fr *frame, args []value) value {
	// func Equal(a, b []byte) bool
	a := args[0].([]value)
	b := args[1].([]value)
	if len(a) != len(b) {
		return false
	}
	for i := range a {
		if a[i] != b[i] {
			return false
		}
	}
	return true
}

func ext۰bytes۰IndexByte(fr *frame, args []value) value {
	// func IndexByte(s []byte, c byte) int
	s := args[0].([]value)
	c := args[1].(byte)
	for i, b := range s {
		if b.(byte) == c {
			return i
		}
	}
	return -1
}

// symFBits is a float64 whose bit pattern is symbolic. It can be stored, copied and
// turned back into bits; any arithmetic or comparison on it is outside the engine
// (no float theory) and surfaces as an engine error.
type symFBits struct{ bits value }

func ext۰math۰Float64frombits(fr *frame, args []value) value {
	if isSym(args[0]) {
		return symFBits{args[0]}
	}
	return math.Float64frombits(args[0].(uint64))
}

func ext۰math۰Float64bits(fr *frame, args []value) value {
	if sf, ok := args[0].(symFBits); ok {
		return sf.bits
	}
	return math.Float64bits(args[0].(float64))
}

func ext۰math۰Float32frombits(fr *frame, args []value) value {
	return math.Float32frombits(args[0].(uint32))
}

func ext۰math۰Abs(fr *frame, args []value) value {
	return math.Abs(args[0].(float64))
}

func ext۰math۰Copysign(fr *frame, args []value) value {
	return math.Copysign(args[0].(float64), args[1].(float64))
}

func ext۰math۰Exp(fr *frame, args []value) value {
	return math.Exp(args[0].(float64))
}

func ext۰math۰Float32bits(fr *frame, args []value) value {
	return math.Float32bits(args[0].(float32))
}

func ext۰math۰Min(fr *frame, args []value) value {
	return math.Min(args[0].(float64), args[1].(float64))
}

func ext۰math۰NaN(fr *frame, args []value) value {
	return math.NaN()
}

func ext۰math۰IsNaN(fr *frame, args []value) value {
	return math.IsNaN(args[0].(float64))
}

func ext۰math۰Inf(fr *frame, args []value) value {
	return math.Inf(args[0].(int))
}

func ext۰math۰Ldexp(fr *frame, args []value) value {
	return math.Ldexp(args[0].(float64), args[1].(int))
}

func ext۰math۰Log(fr *frame, args []value) value {
	return math.Log(args[0].(float64))
}

func ext۰math۰Sqrt(fr *frame, args []value) value {
	return math.Sqrt(args[0].(float64))
}

func ext۰runtime۰Breakpoint(fr *frame, args []value) value {
	runtime.Breakpoint()
	return nil
}

func ext۰sort۰Ints(fr *frame, args []value) value {
	x := args[0].([]value)
	sort.Slice(x, func(i, j int) bool {
		return x[i].(int) < x[j].(int)
	})
	return nil
}
func ext۰sort۰Strings(fr *frame, args []value) value {
	x := args[0].([]value)
	sort.Slice(x, func(i, j int) bool {
		return x[i].(string) < x[j].(string)
	})
	return nil
}
func ext۰sort۰Float64s(fr *frame, args []value) value {
	x := args[0].([]value)
	sort.Slice(x, func(i, j int) bool {
		return x[i].(float64) < x[j].(float64)
	})
	return nil
}

func ext۰strconv۰Atoi(fr *frame, args []value) value {
	i, e := strconv.Atoi(args[0].(string))
	if e != nil {
		return tuple{i, iface{fr.i.runtimeErrorString, e.Error()}}
	}
	return tuple{i, iface{}}
}
func ext۰strconv۰Itoa(fr *frame, args []value) value {
	return strconv.Itoa(args[0].(int))
}
func ext۰strconv۰FormatFloat(fr *frame, args []value) value {
	return strconv.FormatFloat(args[0].(float64), args[1].(byte), args[2].(int), args[3].(int))
}

func ext۰strings۰Count(fr *frame, args []value) value {
	return strings.Count(args[0].(string), args[1].(string))
}

func ext۰strings۰EqualFold(fr *frame, args []value) value {
	return strings.EqualFold(args[0].(string), args[1].(string))
}
func ext۰strings۰IndexByte(fr *frame, args []value) value {
	return strings.IndexByte(args[0].(string), args[1].(byte))
}

func ext۰strings۰Index(fr *frame, args []value) value {
	return strings.Index(args[0].(string), args[1].(string))
}

func ext۰strings۰Replace(fr *frame, args []value) value {
	// func Replace(s, old, new string, n int) string
	s := args[0].(string)
	new := args[1].(string)
	old := args[2].(string)
	n := args[3].(int)
	return strings.Replace(s, old, new, n)
}

func ext۰strings۰ToLower(fr *frame, args []value) value {
	return strings.ToLower(args[0].(string))
}

func ext۰runtime۰GOMAXPROCS(fr *frame, args []value) value {
	// Ignore args[0]; don't let the interpreted program
	// set the interpreter's GOMAXPROCS!
	return runtime.GOMAXPROCS(0)
}

func ext۰runtime۰Goexit(fr *frame, args []value) value {
	// TODO(adonovan): don't kill the interpreter's main goroutine.
	runtime.Goexit()
	return nil
}

func ext۰runtime۰GOROOT(fr *frame, args []value) value {
	return runtime.GOROOT()
}

func ext۰runtime۰GC(fr *frame, args []value) value {
	runtime.GC()
	return nil
}

func ext۰runtime۰Gosched(fr *frame, args []value) value {
	runtime.Gosched()
	return nil
}

func ext۰runtime۰NumCPU(fr *frame, args []value) value {
	return runtime.NumCPU()
}

func ext۰time۰Sleep(fr *frame, args []value) value {
	time.Sleep(time.Duration(args[0].(int64)))
	return nil
}

func ext۰os۰Getenv(fr *frame, args []value) value {
	name := args[0].(string)
	switch name {
	case "GOSSAINTERP":
		return "1"
	}
	return os.Getenv(name)
}

func ext۰os۰Exit(fr *frame, args []value) value {
	panic(exitPanic(args[0].(int)))
}

func ext۰unicode۰utf8۰DecodeRuneInString(fr *frame, args []value) value {
	if ss, ok := args[0].(symStr); ok {
		// same rule as ranging over such a string: a symbolic first byte is decided to be
		// ASCII, anything else is outside the engine
		it := &symStrIter{fr: fr, s: ss}
		t := it.next()
		if !t[0].(bool) {
			return tuple{rune(utf8.RuneError), 0}
		}
		return tuple{t[2], it.i}
	}
	r, n := utf8.DecodeRuneInString(args[0].(string))
	return tuple{r, n}
}

// A fake function for turning an arbitrary value into a string.
// Handles only the cases needed by the tests.
// Uses same logic as 'print' built-in.
func ext۰fmt۰Sprint(fr *frame, args []value) value {
	buf := new(bytes.Buffer)
	wasStr := false
	for i, arg := range args[0].([]value) {
		x := arg.(iface).v
		_, isStr := x.(string)
		if i > 0 && !wasStr && !isStr {
			buf.WriteByte(' ')
		}
		wasStr = isStr
		buf.WriteString(toString(x))
	}
	return buf.String()
}
