// gosym driver: load /repo's current tree with harness overlays, explore every
// obligation of a property symbolically, replay counterexamples natively,
// classify against known findings, write evidence.
package main

import (
	"encoding/json"
	"flag"
	"fmt"
	"go/types"
	"math/rand"
	"os"
	"os/exec"
	"path/filepath"
	"regexp"
	"runtime/debug"
	"runtime/pprof"
	"sort"
	"strings"
	"time"

	"gosym/interp"

	"golang.org/x/tools/go/packages"
	"golang.org/x/tools/go/ssa"
	"golang.org/x/tools/go/ssa/ssautil"
)

type TierCfg struct {
	Params     []map[string]int `json:"params"`      // explicit parameter sets
	Sweep      map[string][2]int `json:"sweep"`      // name -> [lo,hi]: one run per value (cartesian with Params[0] if given)
	MaxPaths   int              `json:"max_paths"`
	MaxSteps   int64            `json:"max_steps"`
	TimeoutS   int              `json:"timeout_s"`    // wall cap per run
	QueryMs    int              `json:"query_ms"`
	Skip       bool             `json:"skip"`
	MaxConcretize int           `json:"max_concretize"`
}

type Obligation struct {
	Name      string            `json:"name"`
	Pkg       string            `json:"pkg"`  // directory relative to /repo, e.g. pkg/objects
	File      string            `json:"file"` // harness file relative to the spec's directory
	Func      string            `json:"func"`
	Replace   map[string]string `json:"replace"`
	SchedChoice bool            `json:"sched_choice"`
	CloseYield  bool            `json:"close_yield"`
	TickerTicks int             `json:"ticker_ticks"`
	MapOrderChoice bool         `json:"map_order_choice"`
	ReplayAttempts int          `json:"replay_attempts"`
	ConcreteMem    bool         `json:"concrete_mem"`
	HashIDs   bool              `json:"hash_ids"`
	RaceMode  bool              `json:"race_mode"`
	AllocBudget int64           `json:"alloc_budget"`
	AllocCap    int64           `json:"alloc_cap"`
	StepsArePanic bool          `json:"steps_are_panic"`
	Reach     []string          `json:"reach"` // labels that must be reached by some run
	Quick     TierCfg           `json:"quick"`
	Thorough  TierCfg           `json:"thorough"`
	Stubs     []string          `json:"stubs"`
	Bounds    string            `json:"bounds"`
	NoReplay  bool              `json:"no_replay"`
	ReplayTimeoutS int          `json:"replay_timeout_s"`
	ReplayRace bool             `json:"replay_race"`
}

type Spec struct {
	Property    string       `json:"property"`
	Level       string       `json:"level"`
	Rule        string       `json:"rule"`
	Assumptions []string     `json:"assumptions"`
	ExtraFiles  map[string]string `json:"extra_files"` // virtual path under /repo -> file relative to spec dir
	Obligations []Obligation `json:"obligations"`
}

type Finding struct {
	Property string `json:"property"`
	Harness  string `json:"harness"` // obligation name
	Label    string `json:"label"`   // regexp on the violation label
	Region   string `json:"region"`  // region that must hold ("" = any input)
	Status   string `json:"status"`  // open | fixed
	Commit   string `json:"commit,omitempty"`
	What     string `json:"what"`
}

type OblEvidence struct {
	Name       string         `json:"name"`
	Func       string         `json:"func"`
	Params     map[string]int `json:"params,omitempty"`
	Status     string         `json:"status"` // complete | incomplete | skipped | violated | known-finding
	Bounds     string         `json:"bounds,omitempty"`
	Paths      int            `json:"paths"`
	SymPaths   int            `json:"paths_with_symbolic_decisions"`
	Decisions  int            `json:"decisions"`
	Outcomes   map[string]int `json:"outcomes"`
	Queries    int            `json:"queries"`
	Sat        int            `json:"sat"`
	Unsat      int            `json:"unsat"`
	Unknown    int            `json:"unknown"`
	ModelHits  int            `json:"branches_decided_by_cached_model"`
	SolverS    float64        `json:"solver_s"`
	WallS      float64        `json:"wall_s"`
	Reached    map[string]int `json:"reached,omitempty"`
	Vacuous    bool           `json:"vacuous_parameter_set,omitempty"`
	Asserts    map[string]int `json:"assertions_checked,omitempty"`
	Incomplete map[string]int `json:"incomplete,omitempty"`
	Cuts       map[string]int `json:"cuts_outside_claim,omitempty"`
	EngineErrs map[string]int `json:"engine_errors,omitempty"`
	Violations map[string]int `json:"violation_classes,omitempty"`
	Functions  int            `json:"functions_executed"`
	MaxSteps   int64          `json:"max_steps_on_a_path"`
	Stubs      []string       `json:"stubs,omitempty"`
}

var (
	specPath   = flag.String("spec", "", "spec.json of the property")
	tier       = flag.String("tier", "quick", "quick|thorough")
	evPath     = flag.String("evidence", "", "evidence file to write")
	only       = flag.String("only", "", "run only obligations whose name matches this regexp")
	replayPath = flag.String("replay", "", "replay a stored counterexample natively")
	repo       = flag.String("repo", "/repo", "repository root")
	findingsPath = flag.String("findings", "/verif/known_findings.json", "known findings file")
	workers    = flag.Int("workers", 0, "worker count (0 = all cores)")
	verbose    = flag.Bool("v", false, "verbose")
	noDiff     = flag.Bool("nodiff", false, "skip differential validation")
	cpuProf    = flag.String("cpuprofile", "", "write cpu profile")
	paramFlag  = flag.String("params", "", "override params: k=v,k=v (single run)")
)

const modPath = "github.com/wrgl/wrgl"

type runner struct {
	spec    Spec
	specDir string
	scratch string
	overlay map[string][]byte
	prog    *ssa.Program
	pkgs    map[string]*ssa.Package // by dir
	seed    int64
	testBin map[string]string // pkg dir -> built test binary ("" = build failed)
	nativeErr map[string]string
}

func main() {
	flag.Parse()
	debug.SetGCPercent(400)
	t0 := time.Now()
	if *cpuProf != "" {
		f, _ := os.Create(*cpuProf)
		pprof.StartCPUProfile(f)
		defer pprof.StopCPUProfile()
	}
	seed := int64(1)
	if v := os.Getenv("VERIF_SEED"); v != "" {
		fmt.Sscanf(v, "%d", &seed)
	}
	data, err := os.ReadFile(*specPath)
	if err != nil {
		fatal(2, "cannot read spec: %v", err)
	}
	r := &runner{specDir: filepath.Dir(*specPath), seed: seed, testBin: map[string]string{}, nativeErr: map[string]string{}, pkgs: map[string]*ssa.Package{}}
	if err := json.Unmarshal(data, &r.spec); err != nil {
		fatal(2, "bad spec: %v", err)
	}
	r.scratch, err = os.MkdirTemp("", "gosym-"+r.spec.Property+"-")
	if err != nil {
		fatal(2, "scratch: %v", err)
	}
	defer os.RemoveAll(r.scratch)
	code := r.run(t0)
	os.RemoveAll(r.scratch)
	if *cpuProf != "" {
		pprof.StopCPUProfile()
	}
	os.Exit(code)
}

func fatal(code int, f string, a ...interface{}) {
	fmt.Fprintf(os.Stderr, "gosym: "+f+"\n", a...)
	os.Exit(code)
}

func (r *runner) goEnv() []string {
	return append(os.Environ(), "GOFLAGS=-mod=mod", "GOPROXY=off", "GOSUMDB=off", "GOTOOLCHAIN=local", "GOWORK=off")
}

func (r *runner) prepare() {
	for _, f := range []string{"go.mod", "go.sum"} {
		b, err := os.ReadFile(filepath.Join(*repo, f))
		if err != nil {
			fatal(2, "read %s: %v", f, err)
		}
		os.WriteFile(filepath.Join(r.scratch, f), b, 0644)
	}
	r.overlay = map[string][]byte{}
	rt, err := os.ReadFile("/verif/rt/zzverif.go")
	if err != nil {
		fatal(2, "runtime: %v", err)
	}
	r.overlay[filepath.Join(*repo, "pkg/zzverif/zzverif.go")] = rt
	for i := range r.spec.Obligations {
		o := &r.spec.Obligations[i]
		b, err := os.ReadFile(filepath.Join(r.specDir, o.File))
		if err != nil {
			fatal(2, "harness %s: %v", o.File, err)
		}
		r.overlay[r.harnessPath(o)] = b
	}
	for virt, rel := range r.spec.ExtraFiles {
		b, err := os.ReadFile(filepath.Join(r.specDir, rel))
		if err != nil {
			fatal(2, "extra file %s: %v", rel, err)
		}
		r.overlay[filepath.Join(*repo, virt)] = b
	}
}

func (r *runner) harnessPath(o *Obligation) string {
	return filepath.Join(*repo, o.Pkg, "zz_verif_"+strings.TrimSuffix(filepath.Base(o.File), ".go")+".go")
}

func (r *runner) load() {
	pats := map[string]bool{}
	for _, o := range r.spec.Obligations {
		pats["./"+o.Pkg] = true
	}
	var pl []string
	for p := range pats {
		pl = append(pl, p)
	}
	sort.Strings(pl)
	cfg := &packages.Config{
		Mode:       packages.LoadAllSyntax,
		Dir:        *repo,
		BuildFlags: []string{"-modfile=" + filepath.Join(r.scratch, "go.mod"), "-tags=verif"},
		Env:        r.goEnv(),
		Overlay:    r.overlay,
	}
	pkgs, err := packages.Load(cfg, pl...)
	if err != nil {
		fatal(2, "load: %v", err)
	}
	if packages.PrintErrors(pkgs) > 0 {
		fatal(2, "the repository (with harness overlays) does not type-check")
	}
	prog, spkgs := ssautil.AllPackages(pkgs, ssa.InstantiateGenerics)
	prog.Build()
	r.prog = prog
	for i, p := range pkgs {
		if spkgs[i] == nil {
			continue
		}
		dir := strings.TrimPrefix(p.PkgPath, modPath+"/")
		r.pkgs[dir] = spkgs[i]
	}
}

func (t *TierCfg) runs() []map[string]int {
	base := []map[string]int{{}}
	if len(t.Params) > 0 {
		base = t.Params
	}
	names := make([]string, 0, len(t.Sweep))
	for n := range t.Sweep {
		names = append(names, n)
	}
	sort.Strings(names)
	for _, n := range names {
		var next []map[string]int
		for _, b := range base {
			for v := t.Sweep[n][0]; v <= t.Sweep[n][1]; v++ {
				m := map[string]int{}
				for k, x := range b {
					m[k] = x
				}
				m[n] = v
				next = append(next, m)
			}
		}
		base = next
	}
	return base
}

type confirmed struct {
	obl     string
	v       interp.Violation
	replay  string
	native  string
	finding *Finding
}

func (r *runner) run(t0 time.Time) int {
	r.prepare()
	if *replayPath != "" {
		return r.replayStored(*replayPath)
	}
	r.load()
	loadDur := time.Since(t0)
	var findings []Finding
	if b, err := os.ReadFile(*findingsPath); err == nil {
		if err := json.Unmarshal(b, &findings); err != nil {
			fatal(2, "known findings file: %v", err)
		}
	}
	var onlyRe *regexp.Regexp
	if *only != "" {
		onlyRe = regexp.MustCompile(*only)
	}
	sizes := types.SizesFor("gc", "amd64")

	var oblEv []OblEvidence
	var allConfirmed []confirmed
	var unreproduced []map[string]interface{}
	var samples []interface{}
	total := interp.Stats{}
	states, transitions, tracesValidated, evals, nontrivial := 0, 0, 0, 0, 0
	engineFailure := ""
	covAll := map[string]int{}
	assumes := map[string][2]int{}
	reachedAll := map[string]int{}
	allComplete := true
	decided := 0

	for oi := range r.spec.Obligations {
		o := &r.spec.Obligations[oi]
		if onlyRe != nil && !onlyRe.MatchString(o.Name) {
			continue
		}
		tc := o.Quick
		if *tier == "thorough" && (len(o.Thorough.Params) > 0 || len(o.Thorough.Sweep) > 0 || o.Thorough.MaxPaths > 0 || o.Thorough.TimeoutS > 0 || o.Thorough.Skip) {
			tc = o.Thorough
		}
		if tc.Skip {
			continue
		}
		pkg := r.pkgs[o.Pkg]
		if pkg == nil {
			fatal(2, "package %s not loaded", o.Pkg)
		}
		runs := tc.runs()
		if *paramFlag != "" {
			m := map[string]int{}
			for _, kv := range strings.Split(*paramFlag, ",") {
				var k string
				var v int
				if i := strings.Index(kv, "="); i > 0 {
					k = kv[:i]
					fmt.Sscanf(kv[i+1:], "%d", &v)
					m[k] = v
				}
			}
			runs = []map[string]int{m}
		}
		oblReached := map[string]int{}
		for _, params := range runs {
			cfg := r.config(o, &tc, params)
			res := interp.Explore(pkg, sizes, o.Func, cfg)
			total = addStats(total, res.Stats)
			ev := OblEvidence{Name: o.Name, Func: o.Func, Params: params, Bounds: o.Bounds, Paths: res.Paths, SymPaths: res.SymPaths,
				Decisions: res.Decisions, Outcomes: res.Outcomes, Queries: res.Stats.Queries, Sat: res.Stats.Sat, Unsat: res.Stats.Unsat,
				Unknown: res.Stats.Unknown, ModelHits: res.Stats.ModelHits, SolverS: res.Stats.SolveDur.Seconds(), WallS: res.Wall.Seconds(),
				Reached: res.Reached, Asserts: res.AssertsChecked, Functions: len(res.Cov), MaxSteps: res.StepsMax, Stubs: o.Stubs,
				Violations: res.ViolationCount}
			if len(o.Reach) > 0 && len(res.Reached) == 0 && len(res.ViolationCount) == 0 {
				// per-parameter-set vacuity witness: the obligation-level check below is satisfied
				// as soon as ANY parameter set reaches the label; a set whose every path was
				// infeasible or ended early decides nothing and is named here and in the evidence
				ev.Vacuous = true
				fmt.Fprintf(os.Stderr, "WARNING vacuity: %s %v reached none of %v (outcomes %v): this parameter set decided nothing\n", o.Name, params, o.Reach, res.Outcomes)
			}
			if len(res.Incomplete) > 0 {
				ev.Incomplete = res.Incomplete
			}
			if len(res.Cuts) > 0 {
				ev.Cuts = res.Cuts
			}
			if len(res.EngineErrors) > 0 {
				ev.EngineErrs = res.EngineErrors
				for k := range res.EngineErrors {
					if engineFailure == "" {
						engineFailure = o.Name + ": " + k
					}
				}
			}
			for f, n := range res.Cov {
				covAll[f] += n
			}
			for k, v := range res.Assumes {
				a := assumes[k]
				a[0] += v[0]
				a[1] += v[1]
				assumes[k] = a
			}
			for k, v := range res.Reached {
				oblReached[k] += v
				reachedAll[o.Name+":"+k] += v
			}
			states += res.Paths
			transitions += res.Decisions
			nontrivial += res.SymPaths
			for _, n := range res.AssertsChecked {
				evals += n
			}
			ev.Status = "complete"
			if len(res.Incomplete) > 0 || len(res.EngineErrors) > 0 {
				ev.Status = "incomplete"
				allComplete = false
			}
			if res.Paths > 0 && len(res.EngineErrors) == 0 {
				decided++
			}
			if *verbose {
				fmt.Fprintf(os.Stderr, "[%s %v] paths=%d sym=%d outcomes=%v queries=%d (modelhits %d) solver=%.1fs wall=%.1fs incomplete=%v cuts=%v engine=%v viol=%v\n",
					o.Name, params, res.Paths, res.SymPaths, res.Outcomes, res.Stats.Queries, res.Stats.ModelHits, res.Stats.SolveDur.Seconds(), res.Wall.Seconds(), res.Incomplete, res.Cuts, res.EngineErrors, res.ViolationCount)
			}
			for i, s := range res.Samples {
				if i < 2 && len(samples) < 12 {
					samples = append(samples, map[string]interface{}{"obligation": o.Name, "params": params, "path": s})
				}
			}
			// native replay of candidate violations
			if len(res.Violations) > 0 {
				for _, v := range res.Violations {
					if o.NoReplay {
						unreproduced = append(unreproduced, map[string]interface{}{"obligation": o.Name, "label": v.Label, "reason": "replay disabled for this obligation", "model": v.Model})
						continue
					}
					ok, nativeOut, path := r.replayViolation(o, params, v)
					tracesValidated++
					if !ok {
						unreproduced = append(unreproduced, map[string]interface{}{"obligation": o.Name, "params": params, "label": v.Label, "model": v.Model, "native": tail(nativeOut, 600)})
						if *verbose {
							fmt.Fprintf(os.Stderr, "  unreproduced: %s %.300s\n%s\n", v.Label, fmt.Sprint(v.Model), tail(nativeOut, 600))
						}
						continue
					}
					c := confirmed{obl: o.Name, v: v, replay: path, native: nativeOut}
					c.finding = matchFinding(findings, r.spec.Property, o.Name, v)
					allConfirmed = append(allConfirmed, c)
					if c.finding != nil {
						ev.Status = "known-finding"
					} else {
						ev.Status = "violated"
					}
				}
			}
			// differential validation: path models re-run concretely in gosym and natively
			if !*noDiff && !o.NoReplay && len(res.Samples) > 0 {
				n, mism := r.differential(o, params, res, pkg, sizes, cfg)
				tracesValidated += n
				if mism != "" && engineFailure == "" {
					engineFailure = "differential validation mismatch in " + o.Name + ": " + mism
				}
			}
			oblEv = append(oblEv, ev)
		}
		for _, lbl := range o.Reach {
			if oblReached[lbl] == 0 && engineFailure == "" {
				engineFailure = fmt.Sprintf("vacuity: obligation %s never reached %q", o.Name, lbl)
			}
		}
	}

	// classify
	violations := 0
	printedKF := map[string]bool{}
	printedV := map[string]bool{}
	var lines []string
	for _, c := range allConfirmed {
		if c.finding != nil && c.finding.Status == "open" {
			key := c.finding.Harness + "|" + c.finding.Label + "|" + c.finding.Region
			if !printedKF[key] {
				printedKF[key] = true
				lines = append(lines, fmt.Sprintf("KNOWN-FINDING: property=%s %s: %s", r.spec.Property, regionName(c.finding), c.finding.What))
			}
			continue
		}
		vkey := c.obl + "|" + c.v.Label + "|" + strings.Join(c.v.Regions, ",")
		if printedV[vkey] {
			continue
		}
		printedV[vkey] = true
		violations++
		lines = append(lines, fmt.Sprintf("VIOLATION property=%s replay=%s", r.spec.Property, c.replay))
		fmt.Fprintf(os.Stderr, "violation in %s: %s regions=%v model=%v\n", c.obl, c.v.Label, c.v.Regions, c.v.Model)
	}
	for _, l := range lines {
		fmt.Println(l)
	}
	// open findings that were not observed this run: say so (no alarm)
	for _, f := range findings {
		if f.Property == r.spec.Property && f.Status == "open" && !printedKF[f.Harness+"|"+f.Label+"|"+f.Region] && onlyRe == nil {
			fmt.Fprintf(os.Stderr, "note: open known finding not observed on this run: %s / %s / %s\n", f.Harness, f.Label, f.Region)
		}
	}

	discharged := 0
	for _, o := range oblEv {
		if o.Status == "complete" {
			discharged++
		}
	}
	// evidence
	var fnList []string
	for f := range covAll {
		fnList = append(fnList, f)
	}
	sort.Strings(fnList)
	var assumptionList []string
	assumptionList = append(assumptionList, r.spec.Assumptions...)
	for k, v := range assumes {
		assumptionList = append(assumptionList, fmt.Sprintf("Assume %q: held on %d paths, cut %d paths", k, v[0], v[1]))
	}
	if len(samples) == 0 {
		samples = append(samples, map[string]interface{}{"note": "no path with symbolic decisions completed"})
	}
	if states == 0 {
		states = 0
	}
	cov := map[string]interface{}{
		"states":                        states,
		"transitions":                   transitions,
		"traces_validated_against_impl": tracesValidated,
		"evaluations":                   max(evals, total.Queries),
		"distinct_nontrivial":           nontrivial,
		"rule":                          r.spec.Rule,
		"samples":                       samples,
		"exhaustive":                    allComplete && engineFailure == "",
		"obligation_details":            oblEv,
		"obligations":                   len(oblEv),
		"discharged":                    discharged,
		"solver": map[string]interface{}{"primary": "z3 -in (4.8.12)", "fallback": "cvc5 --solve-bv-as-int=sum, z3-new", "queries": total.Queries, "sat": total.Sat, "unsat": total.Unsat,
			"unknown": total.Unknown, "fallback_queries": total.FallbackQueries, "solver_s": total.SolveDur.Seconds(), "branches_decided_by_cached_model": total.ModelHits},
		"functions_encoded":              fnList,
		"unreproduced_counterexamples":   unreproduced,
		"load_s":                         loadDur.Seconds(),
		"explanation":                    "bounded symbolic execution of the repository's own go/ssa by gosym; states = feasible paths completed, transitions = decisions taken; every path covers all values of its symbolic inputs",
	}
	if engineFailure != "" {
		cov["engine_failure"] = engineFailure
	}
	evd := map[string]interface{}{
		"property_id": r.spec.Property,
		"tier":        *tier,
		"seed":        r.seed,
		"level":       r.spec.Level,
		"coverage":    cov,
		"assumptions": assumptionList,
		"wall_s":      time.Since(t0).Seconds(),
		"violations":  violations,
	}
	if *evPath != "" {
		b, _ := json.MarshalIndent(evd, "", " ")
		os.MkdirAll(filepath.Dir(*evPath), 0755)
		if err := os.WriteFile(*evPath, b, 0644); err != nil {
			fatal(2, "evidence: %v", err)
		}
	}
	fmt.Fprintf(os.Stderr, "%s %s: obligations=%d paths=%d queries=%d violations=%d known=%d unreproduced=%d wall=%.1fs\n", r.spec.Property, *tier, len(oblEv), states, total.Queries, violations, len(printedKF), len(unreproduced), time.Since(t0).Seconds())
	if violations > 0 {
		return 1
	}
	if engineFailure != "" {
		fmt.Fprintln(os.Stderr, "ENGINE FAILURE:", engineFailure)
		return 2
	}
	if decided == 0 {
		fmt.Fprintln(os.Stderr, "nothing could be decided")
		return 2
	}
	return 0
}

func regionName(f *Finding) string {
	if f.Region != "" {
		return f.Harness + "/" + f.Region
	}
	return f.Harness
}

func max(a, b int) int {
	if a > b {
		return a
	}
	return b
}

func tail(s string, n int) string {
	if len(s) > n {
		return s[len(s)-n:]
	}
	return s
}

func addStats(a, b interp.Stats) interp.Stats {
	a.Queries += b.Queries
	a.Sat += b.Sat
	a.Unsat += b.Unsat
	a.Unknown += b.Unknown
	a.SolveDur += b.SolveDur
	a.FallbackQueries += b.FallbackQueries
	a.ModelHits += b.ModelHits
	return a
}

func matchFinding(fs []Finding, prop, obl string, v interp.Violation) *Finding {
	var fixed *Finding
	for i := range fs {
		f := &fs[i]
		if f.Property != prop || f.Harness != obl {
			continue
		}
		if ok, _ := regexp.MatchString(f.Label, v.Label); !ok {
			continue
		}
		if f.Region != "" {
			in := false
			for _, r := range v.Regions {
				if r == f.Region {
					in = true
				}
			}
			if !in {
				continue
			}
		}
		if f.Status == "open" {
			return f
		}
		fixed = f
	}
	_ = fixed
	return nil
}

func (r *runner) config(o *Obligation, tc *TierCfg, params map[string]int) *interp.Config {
	cfg := &interp.Config{InitAllow: map[string]bool{}, Replace: o.Replace, TargetPrefix: modPath, MaxSteps: tc.MaxSteps, MaxPaths: tc.MaxPaths,
		Workers: *workers, SchedChoice: o.SchedChoice, CloseYield: o.CloseYield, TickerTicks: o.TickerTicks, MapOrderChoice: o.MapOrderChoice, HashIDs: o.HashIDs, ConcreteMem: o.ConcreteMem, RaceMode: o.RaceMode, AllocBudget: o.AllocBudget, AllocCap: o.AllocCap, StepsArePanic: o.StepsArePanic, Params: params,
		TimeoutMs: tc.QueryMs, MaxConcretize: tc.MaxConcretize}
	for _, a := range interp.DefaultInitAllow {
		cfg.InitAllow[a] = true
	}
	if tc.TimeoutS == 0 {
		tc.TimeoutS = 300
		if *tier == "thorough" {
			tc.TimeoutS = 1500
		}
	}
	if tc.TimeoutS > 0 {
		cfg.Deadline = time.Now().Add(time.Duration(tc.TimeoutS) * time.Second)
	}
	return cfg
}

// ---- native replay ----

func (r *runner) buildTestBin(o *Obligation) (string, string) {
	key := o.Pkg
	if o.ReplayRace {
		key += "|race"
	}
	if b, ok := r.testBin[key]; ok {
		return b, r.nativeErr[key]
	}
	// generated replay test calling every harness function of this package
	var names []string
	pkgName := ""
	for _, x := range r.spec.Obligations {
		if x.Pkg == o.Pkg {
			names = append(names, x.Func)
		}
	}
	sort.Strings(names)
	names = uniq(names)
	if p := r.pkgs[o.Pkg]; p != nil {
		pkgName = p.Pkg.Name()
	} else {
		pkgName = r.pkgNameFromSource(o)
	}
	var sb strings.Builder
	fmt.Fprintf(&sb, "//go:build verif\n\npackage %s\n\nimport (\n\t\"os\"\n\t\"testing\"\n\n\t\"%s/pkg/zzverif\"\n)\n\nfunc TestZZVerifReplay(t *testing.T) {\n\tcode := zzverif.RunNative(map[string]func(){\n", pkgName, modPath)
	for _, n := range names {
		fmt.Fprintf(&sb, "\t\t%q: %s,\n", n, n)
	}
	sb.WriteString("\t})\n\tif code != 0 {\n\t\tos.Exit(code)\n\t}\n}\n")
	ovDir := filepath.Join(r.scratch, "ov-"+strings.NewReplacer("/", "_", "|", "-").Replace(key))
	os.MkdirAll(ovDir, 0755)
	repl := map[string]string{}
	idx := 0
	add := func(virt string, content []byte) {
		idx++
		real := filepath.Join(ovDir, fmt.Sprintf("f%d.go", idx))
		os.WriteFile(real, content, 0644)
		repl[virt] = real
	}
	for virt, content := range r.overlay {
		add(virt, content)
	}
	add(filepath.Join(*repo, o.Pkg, "zz_verif_replay_test.go"), []byte(sb.String()))
	ovJSON, _ := json.Marshal(map[string]interface{}{"Replace": repl})
	ovPath := filepath.Join(ovDir, "overlay.json")
	os.WriteFile(ovPath, ovJSON, 0644)
	bin := filepath.Join(ovDir, "replay.test")
	args := []string{"test", "-c", "-vet=off", "-tags=verif", "-modfile=" + filepath.Join(r.scratch, "go.mod"), "-overlay", ovPath, "-o", bin}
	if o.ReplayRace {
		args = append(args, "-race")
	}
	args = append(args, "./"+o.Pkg)
	cmd := exec.Command("go", args...)
	cmd.Dir = *repo
	cmd.Env = r.goEnv()
	out, err := cmd.CombinedOutput()
	if err != nil {
		r.testBin[key] = ""
		r.nativeErr[key] = string(out)
		return "", string(out)
	}
	r.testBin[key] = bin
	return bin, ""
}

func (r *runner) pkgNameFromSource(o *Obligation) string {
	b := r.overlay[r.harnessPath(o)]
	re := regexp.MustCompile(`(?m)^package\s+(\w+)`)
	if m := re.FindSubmatch(b); m != nil {
		return string(m[1])
	}
	return filepath.Base(o.Pkg)
}

func uniq(s []string) []string {
	var out []string
	for i, x := range s {
		if i == 0 || x != s[i-1] {
			out = append(out, x)
		}
	}
	return out
}

type vectorFile struct {
	Property string            `json:"property"`
	Obligation string          `json:"obligation"`
	Pkg      string            `json:"pkg"`
	Harness  string            `json:"harness"`
	Params   map[string]int    `json:"params"`
	Vector   map[string]uint64 `json:"vector"`
	Label    string            `json:"label,omitempty"`
	Kind     string            `json:"kind,omitempty"`
	Regions  []string          `json:"regions,omitempty"`
}

func (r *runner) runNative(o *Obligation, vf *vectorFile, path string) (string, int) {
	bin, berr := r.buildTestBin(o)
	if bin == "" {
		return "NATIVE BUILD FAILED\n" + berr, -1
	}
	b, _ := json.MarshalIndent(vf, "", " ")
	os.WriteFile(path, b, 0644)
	to := o.ReplayTimeoutS
	if to == 0 {
		to = 30
	}
	limit := "ulimit -v 8000000; "
	if o.ReplayRace {
		limit = "" // the race detector reserves a huge virtual address range
	}
	cmd := exec.Command("bash", "-c", fmt.Sprintf("%sexec timeout -k 2 %d %s -test.run '^TestZZVerifReplay$' -test.timeout %ds", limit, to+5, bin, to))
	cmd.Dir = filepath.Join(*repo, o.Pkg)
	if _, err := os.Stat(cmd.Dir); err != nil {
		cmd.Dir = *repo
	}
	cmd.Env = append(r.goEnv(), "VERIF_VECTOR="+path)
	out, err := cmd.CombinedOutput()
	code := 0
	if err != nil {
		code = 1
		if ee, ok := err.(*exec.ExitError); ok {
			code = ee.ExitCode()
		}
	}
	return string(out), code
}

func (r *runner) replayViolation(o *Obligation, params map[string]int, v interp.Violation) (bool, string, string) {
	dir := filepath.Join("/verif/replays", r.spec.Property)
	os.MkdirAll(dir, 0755)
	name := fmt.Sprintf("%s-%s-%d.json", o.Name, sanitize(v.Label), time.Now().UnixNano()%1000000)
	path := filepath.Join(dir, name)
	vf := &vectorFile{Property: r.spec.Property, Obligation: o.Name, Pkg: o.Pkg, Harness: o.Func, Params: params, Vector: v.Model, Label: v.Label, Kind: v.Kind, Regions: v.Regions}
	attempts := 1
	if v.Kind == "race" {
		attempts = 40 // the race detector needs the racy accesses to actually overlap in a run
	}
	if o.MapOrderChoice || o.SchedChoice {
		attempts = 30 // native map order / scheduling is random: repeat until the chosen order shows up
	}
	if o.ReplayAttempts > attempts {
		attempts = o.ReplayAttempts // the code under test depends on native map order the engine fixed
	}
	var out string
	var code int
	ok := false
	for a := 0; a < attempts && !ok; a++ {
		out, code = r.runNative(o, vf, path)
		ok = nativeConfirms(o, v, out, code)
	}
	if !ok {
		os.Remove(path)
	}
	return ok, out, path
}

func sanitize(s string) string {
	var sb strings.Builder
	for _, c := range s {
		if (c >= 'a' && c <= 'z') || (c >= 'A' && c <= 'Z') || (c >= '0' && c <= '9') {
			sb.WriteRune(c)
		} else {
			sb.WriteByte('_')
		}
		if sb.Len() > 40 {
			break
		}
	}
	return sb.String()
}

func nativeConfirms(o *Obligation, v interp.Violation, out string, code int) bool {
	if strings.Contains(out, "NATIVE BUILD FAILED") || strings.Contains(out, "ZZVERIF ERROR") {
		return false
	}
	if v.Kind == "assert" {
		// the failing assertion is printed when it happens; an Assume that fails LATER in the
		// harness (on inputs the model did not have to fix) does not undo it
		lbl := strings.TrimPrefix(v.Label, "assert: ")
		return strings.Contains(out, "ZZVERIF FAIL "+lbl+"\n")
	}
	if strings.Contains(out, "ZZVERIF ASSUMEFAIL") {
		return false
	}
	switch v.Kind {
	case "assert":
		lbl := strings.TrimPrefix(v.Label, "assert: ")
		return strings.Contains(out, "ZZVERIF FAIL "+lbl+"\n")
	case "panic":
		return strings.Contains(out, "ZZVERIF PANIC ") || (code != 0 && (strings.Contains(out, "panic: ") || strings.Contains(out, "fatal error: ")) && !strings.Contains(out, "test timed out"))
	case "deadlock", "steps":
		return strings.Contains(out, "test timed out") || strings.Contains(out, "all goroutines are asleep") || code == 124 || code == 137
	case "race":
		return strings.Contains(out, "DATA RACE")
	case "alloc":
		if strings.Contains(out, "out of memory") || strings.Contains(out, "makeslice") || strings.Contains(out, "cannot allocate") {
			return true
		}
		re := regexp.MustCompile(`ZZVERIF ALLOC (\d+)`)
		if m := re.FindStringSubmatch(out); m != nil {
			var n int64
			fmt.Sscanf(m[1], "%d", &n)
			return o.AllocBudget > 0 && n > o.AllocBudget
		}
	}
	return false
}

func (r *runner) replayStored(path string) int {
	b, err := os.ReadFile(path)
	if err != nil {
		fatal(2, "replay: %v", err)
	}
	var vf vectorFile
	if err := json.Unmarshal(b, &vf); err != nil {
		fatal(2, "replay: %v", err)
	}
	for i := range r.spec.Obligations {
		o := &r.spec.Obligations[i]
		if o.Name == vf.Obligation {
			tmp := filepath.Join(r.scratch, "replay.json")
			out, code := r.runNative(o, &vf, tmp)
			fmt.Print(out)
			if nativeConfirms(o, interp.Violation{Label: vf.Label, Kind: vf.Kind}, out, code) {
				fmt.Printf("VIOLATION property=%s replay=%s\n", r.spec.Property, path)
				return 1
			}
			fmt.Println("not reproduced")
			return 0
		}
	}
	fatal(2, "replay: obligation %q not in spec", vf.Obligation)
	return 2
}

// differential validation: re-run sampled path models concretely in gosym (vector
// mode) and natively; the observation logs must agree.
func (r *runner) differential(o *Obligation, params map[string]int, res *interp.Result, pkg *ssa.Package, sizes types.Sizes, cfg *interp.Config) (int, string) {
	k := 2
	if *tier == "thorough" {
		k = 6
	}
	rng := rand.New(rand.NewSource(r.seed))
	var vecs []map[string]uint64
	perm := rng.Perm(len(res.Samples))
	for _, i := range perm {
		if len(vecs) >= k {
			break
		}
		if res.Samples[i].Model != nil && strings.HasPrefix(res.Samples[i].Outcome, "ok") {
			vecs = append(vecs, res.Samples[i].Model)
		}
	}
	if len(vecs) == 0 {
		return 0, ""
	}
	c2 := *cfg
	c2.Vectors = vecs
	c2.Workers = 1
	c2.Deadline = time.Time{}
	vres := interp.Explore(pkg, sizes, o.Func, &c2)
	n := 0
	for i, vec := range vecs {
		if i >= len(vres.Observed) {
			break
		}
		vf := &vectorFile{Property: r.spec.Property, Obligation: o.Name, Pkg: o.Pkg, Harness: o.Func, Params: params, Vector: vec}
		out, _ := r.runNative(o, vf, filepath.Join(r.scratch, "diff.json"))
		if strings.Contains(out, "NATIVE BUILD FAILED") {
			return n, "native build failed: " + tail(out, 800)
		}
		var nat []string
		for _, l := range strings.Split(out, "\n") {
			switch {
			case strings.HasPrefix(l, "ZZVERIF FAIL "):
				nat = append(nat, "FAIL "+strings.TrimPrefix(l, "ZZVERIF FAIL "))
			case strings.HasPrefix(l, "ZZVERIF OBS "):
				nat = append(nat, "OBS "+strings.TrimPrefix(l, "ZZVERIF OBS "))
			case strings.HasPrefix(l, "ZZVERIF PANIC "):
				nat = append(nat, "PANIC")
			}
		}
		var sym []string
		for _, l := range vres.Observed[i] {
			sym = append(sym, l)
		}
		n++
		if strings.Join(nat, "\n") != strings.Join(sym, "\n") {
			return n, fmt.Sprintf("vector %v: native %q vs gosym %q", vec, nat, sym)
		}
	}
	return n, ""
}
