//go:build verif

package diff

import (
	"bytes"

	"github.com/go-logr/logr"
	"github.com/klauspost/compress/s2"
	"github.com/wrgl/wrgl/pkg/objects"
	"github.com/wrgl/wrgl/pkg/zzverif"
)

// C04: the real diff.DiffTables (differ goroutine, iterateAndMatch,
// findOverlappingBlocks, getBlockIndices, BlockIndex.ReadFrom/Get, GetBlockIndex)
// on synthetic small-block tables, compared with the set-difference oracle.
//
// Tables: nb blocks of rowsPer rows; 1-byte symbolic keys assumed strictly
// increasing within a table; 1-byte symbolic row sums. A block index is encoded
// by the harness in the on-disk format (count, sortedOff, 32-byte rows) with the
// key hash replaced by the key padded to 16 bytes (an order-preserving injective
// stand-in for the hash, so sortedOff is the identity), stored through the real
// s2 codec. The table index lists the first key of each block. Small blocks are a
// sound generalisation: the window search only looks at first keys and block
// counts, and offsets are block*255+row whatever the block fill.

type zzStore struct{ m map[string][]byte }

func (s *zzStore) Get(k []byte) ([]byte, error) {
	if v, ok := s.m[string(k)]; ok {
		return v, nil
	}
	return nil, objects.ErrKeyNotFound
}
func (s *zzStore) Set(k, v []byte) error                      { s.m[string(k)] = v; return nil }
func (s *zzStore) Delete(k []byte) error                       { delete(s.m, string(k)); return nil }
func (s *zzStore) Exist(k []byte) bool                         { _, ok := s.m[string(k)]; return ok }
func (s *zzStore) Filter(p []byte) (map[string][]byte, error) { return nil, nil }
func (s *zzStore) FilterKey(p []byte) ([][]byte, error)        { return nil, nil }
func (s *zzStore) Clear(p []byte) error                        { return nil }
func (s *zzStore) Close() error                                { return nil }

type zzRow struct {
	key  byte
	key2 byte // second key column (only with keycols = 2)
	sum  byte
	off  uint32
}

func zzPad16(b byte) []byte { r := make([]byte, 16); r[0] = b; return r }

func zzPadKey(r zzRow) []byte { k := make([]byte, 16); k[0], k[1] = r.key, r.key2; return k }

func zzBuildTable(st *zzStore, tag byte, nb, rowsPer, keycols int) (*objects.Table, [][]string, []zzRow) {
	tbl := &objects.Table{Columns: []string{"k", "v"}, PK: []uint32{0}}
	if keycols == 2 {
		tbl = &objects.Table{Columns: []string{"k", "k2", "v"}, PK: []uint32{0, 1}}
	}
	if keycols == 0 {
		// a table without primary key: the whole row is the key, so the index entry of a
		// row carries the row's own sum twice and a row can only be added or removed
		tbl = &objects.Table{Columns: []string{"k"}}
	}
	var tblIdx [][]string
	var rows []zzRow
	var prev zzRow
	for b := 0; b < nb; b++ {
		buf := bytes.NewBuffer(nil)
		buf.WriteByte(byte(rowsPer))
		for i := 0; i < rowsPer; i++ {
			buf.WriteByte(byte(i))
		}
		for i := 0; i < rowsPer; i++ {
			r := zzRow{key: zzverif.Byte("key"), sum: zzverif.Byte("sum"), off: uint32(b*objects.BlockSize + i)}
			if keycols == 0 {
				r.sum = r.key
			}
			if keycols == 2 {
				r.key2 = zzverif.Byte("key2")
				// a composite key whose first component takes few values, so that ties on the
				// leading column are frequent
				zzverif.Assume(r.key < 3)
			}
			if len(rows) > 0 {
				if keycols == 2 {
					zzverif.Assume(zzverif.Or(r.key > prev.key, zzverif.And(r.key == prev.key, r.key2 > prev.key2)))
				} else {
					zzverif.Assume(r.key > prev.key)
				}
			}
			prev = r
			rows = append(rows, r)
			buf.Write(zzPadKey(r))
			buf.Write(zzPad16(r.sum))
			if i == 0 {
				if keycols == 2 {
					tblIdx = append(tblIdx, []string{string([]byte{r.key}), string([]byte{r.key2})})
				} else {
					tblIdx = append(tblIdx, []string{string([]byte{r.key})})
				}
			}
		}
		id := make([]byte, 16)
		id[0], id[1] = tag, byte(b)
		st.m["blkidx/"+string(id)] = s2.EncodeBetter(nil, buf.Bytes())
		tbl.Blocks = append(tbl.Blocks, id)
		tbl.BlockIndices = append(tbl.BlockIndices, id)
	}
	tbl.RowsCount = uint32(len(rows))
	return tbl, tblIdx, rows
}

func Harness_C04_diff() {
	nb1, nb2, rowsPer := zzverif.Param("nb1", 1), zzverif.Param("nb2", 1), zzverif.Param("rows", 2)
	keycols := zzverif.Param("keycols", 1)
	zzverif.Region("empty-first-table", nb1 == 0)
	zzverif.Region("empty-second-table", nb2 == 0)
	st := &zzStore{m: map[string][]byte{}}
	t1, idx1, rows1 := zzBuildTable(st, 1, nb1, rowsPer, keycols)
	t2, idx2, rows2 := zzBuildTable(st, 2, nb2, rowsPer, keycols)
	errCh := make(chan error, 10)
	ch, _ := DiffTables(st, st, t1, t2, idx1, idx2, errCh, logr.Discard())
	var evs []*objects.Diff
	for d := range ch {
		evs = append(evs, d)
		if len(evs) > 2*(len(rows1)+len(rows2))+2 {
			break
		}
	}
	select {
	case err := <-errCh:
		zzverif.Assert("diff-no-error", err == nil)
		return
	default:
	}
	// oracle counts (branch-free)
	ea, er, em := 0, 0, 0
	for _, r1 := range rows1 {
		found, mod := false, false
		for _, r2 := range rows2 {
			same := zzverif.And(r1.key == r2.key, r1.key2 == r2.key2)
			found = zzverif.Or(found, same)
			mod = zzverif.Or(mod, zzverif.And(same, r1.sum != r2.sum))
		}
		ea += zzverif.B2I(!found)
		em += zzverif.B2I(mod)
	}
	for _, r2 := range rows2 {
		found := false
		for _, r1 := range rows1 {
			found = zzverif.Or(found, zzverif.And(r1.key == r2.key, r1.key2 == r2.key2))
		}
		er += zzverif.B2I(!found)
	}
	added, removed, modified := 0, 0, 0
	for _, d := range evs {
		switch {
		case d.OldSum == nil:
			added++
		case d.Sum == nil:
			removed++
		default:
			modified++
		}
	}
	zzverif.Assert("added-count", added == ea)
	zzverif.Assert("removed-count", removed == er)
	zzverif.Assert("modified-count", modified == em)
	// each event addresses the right rows, and no key is reported twice
	for x, d := range evs {
		zzverif.Assert("event-has-16-byte-key", len(d.PK) == 16)
		for y := 0; y < x; y++ {
			zzverif.Assert("no-key-reported-twice", zzverif.Or(d.PK[0] != evs[y].PK[0], d.PK[1] != evs[y].PK[1]))
		}
		var in1, in2 *zzRow
		for i := range rows1 {
			if rows1[i].key == d.PK[0] && rows1[i].key2 == d.PK[1] {
				in1 = &rows1[i]
			}
		}
		for i := range rows2 {
			if rows2[i].key == d.PK[0] && rows2[i].key2 == d.PK[1] {
				in2 = &rows2[i]
			}
		}
		switch {
		case d.OldSum == nil:
			zzverif.Assert("added-row-is-only-in-first", in1 != nil && in2 == nil)
			if in1 != nil {
				zzverif.Assert("added-row-sum-and-offset", d.Sum[0] == in1.sum && d.Offset == in1.off)
			}
		case d.Sum == nil:
			zzverif.Assert("removed-row-is-only-in-second", in1 == nil && in2 != nil)
			if in2 != nil {
				zzverif.Assert("removed-row-sum-and-offset", d.OldSum[0] == in2.sum && d.OldOffset == in2.off)
			}
		default:
			zzverif.Assert("modified-row-is-in-both", in1 != nil && in2 != nil)
			if in1 != nil && in2 != nil {
				zzverif.Assert("modified-row-really-differs", in1.sum != in2.sum)
				zzverif.Assert("modified-row-sums-and-offsets", d.Sum[0] == in1.sum && d.OldSum[0] == in2.sum && d.Offset == in1.off && d.OldOffset == in2.off)
			}
		}
	}
	zzverif.Reach("end")
}

// C04-H2: row offset arithmetic. For every block number i < 2^24 and row o < 255,
// RowToBlockAndOffset(i*255+o) == (i, o).
func Harness_C04_offsets() {
	i := zzverif.Uint32("blk")
	o := zzverif.Byte("off")
	zzverif.Assume(i < 1<<24)
	zzverif.Assume(o < 255)
	blk, off := RowToBlockAndOffset(i*objects.BlockSize + uint32(o))
	zzverif.Assert("offset-arithmetic-block", blk == i)
	zzverif.Assert("offset-arithmetic-row", off == o)
	zzverif.Reach("end")
}
