//go:build verif

package apiutils

import (
	"bytes"
	"fmt"
	"io"
	"strings"

	"github.com/go-logr/logr"
	"github.com/wrgl/wrgl/pkg/encoding/packfile"
	"github.com/wrgl/wrgl/pkg/objects"
	"github.com/wrgl/wrgl/pkg/zzverif"
	"github.com/wrgl/wrgl/pkg/zzverif/zzingest"
	"github.com/wrgl/wrgl/pkg/zzverif/zzrepo"
)

// C07: ObjectSender.WriteObjects -> packfile -> PackfileReader -> ObjectReceiver.Receive
// between two in-memory stores. The packfile size limit is ONE 64-bit solver
// variable (every limit from 1 byte up; the code's comparisons split the 2^64
// values into finitely many classes); which objects the destination already has
// is chosen by symbolic booleans.

type zzScenario struct {
	src     *zzrepo.ObjStore
	commits []*objects.Commit // parent-first
	tables  [][]byte          // table of commit i
	tbls    []*objects.Table
}

// zzPK: the primary key of every table of the scenario (parameter pk): 0 = the first
// column, 1 = the second column (the unique cell moves there), 2 = both columns listed
// as (second, first), 3 = no key.
func zzPK() []uint32 {
	switch zzverif.Param("pk", 0) {
	case 1:
		return []uint32{1}
	case 2:
		return []uint32{1, 0}
	case 3:
		return nil
	}
	return []uint32{0}
}

func zzRows(n int, tag string) [][]string {
	rows := make([][]string, n)
	kcol, vcol := 0, 1
	if p := zzverif.Param("pk", 0); p == 1 || p == 2 {
		kcol, vcol = 1, 0
	}
	for i := range rows {
		rows[i] = make([]string, 2)
		rows[i][kcol], rows[i][vcol] = fmt.Sprintf("k%03d", i), tag
	}
	// emptyCells = 1: the last row of every table has an empty cell and one more
	// row has an empty non-key cell (empty cells are ordinary CSV content)
	if zzverif.Param("emptyCells", 0) == 1 && n > 0 {
		rows[n-1][vcol] = ""
		if n > 2 {
			rows[1][vcol] = ""
		}
	}
	return rows
}

// zzIngested stores a table through the repository's real ingest pipeline (sorter +
// inserter), so that what the receiver rebuilds (block indices, table index) is
// compared with what ingest itself produces.
func zzIngested(db *zzrepo.ObjStore, rows [][]string) ([]byte, *objects.Table) {
	sum, err := zzingest.Ingest(db, []string{"a", "b"}, zzPK(), rows, 1<<40, 1)
	if err != nil {
		panic(err)
	}
	tbl, err := objects.GetTable(db, sum)
	if err != nil {
		panic(err)
	}
	return sum, tbl
}

func zzBuild(kind int) *zzScenario {
	sc := &zzScenario{src: zzrepo.NewObjStore()}
	add := func(rows [][]string, msg string, ts int64, parents ...int) {
		sum, tbl := zzIngested(sc.src, rows)
		var ps [][]byte
		for _, p := range parents {
			ps = append(ps, sc.commits[p].Sum)
		}
		_, c := zzrepo.SaveCommit(sc.src, sum, msg, ts, ps...)
		sc.commits = append(sc.commits, c)
		sc.tables = append(sc.tables, sum)
		sc.tbls = append(sc.tbls, tbl)
	}
	switch kind {
	case 0: // chain of two, single-block tables
		add(zzRows(2, "x"), "one", 1600000000)
		add(zzRows(3, "x"), "two", 1600000100, 0)
	case 1: // second table has two blocks and shares its first block with the first table
		add(zzRows(255, "x"), "one", 1600000000)
		add(zzRows(256, "x"), "two", 1600000100, 0)
	case 2: // fork and merge; commit 3 re-uses the table of commit 1
		add(zzRows(2, "x"), "root", 1600000000)
		add(zzRows(2, "y"), "left", 1600000100, 0)
		add(zzRows(3, "z"), "right", 1600000100, 0)
		rows := zzRows(2, "y")
		sum, tbl := zzIngested(sc.src, rows)
		_, c := zzrepo.SaveCommit(sc.src, sum, "merge", 1600000200, sc.commits[1].Sum, sc.commits[2].Sum)
		sc.commits = append(sc.commits, c)
		sc.tables = append(sc.tables, sum)
		sc.tbls = append(sc.tbls, tbl)
	case 3: // chain of four; commits 1 and 3 carry the same table, commit 2 has a two-block table
		add(zzRows(2, "x"), "one", 1600000000)
		add(zzRows(3, "y"), "two", 1600000100, 0)
		add(zzRows(256, "x"), "three", 1600000200, 1)
		add(zzRows(3, "y"), "four", 1600000300, 2)
	}
	return sc
}

func zzCopyCommit(dst *zzrepo.ObjStore, sc *zzScenario, i int) {
	zzrepo.CopyKey(dst, sc.src, "com/"+string(sc.commits[i].Sum))
	zzCopyTable(dst, sc, i)
}

func zzCopyTable(dst *zzrepo.ObjStore, sc *zzScenario, i int) {
	t := sc.tables[i]
	for _, p := range []string{"tbl/", "tblidx/", "tblsum/"} {
		zzrepo.CopyKey(dst, sc.src, p+string(t))
	}
	for k, b := range sc.tbls[i].Blocks {
		zzrepo.CopyKey(dst, sc.src, "blk/"+string(b))
		zzrepo.CopyKey(dst, sc.src, "blkidx/"+string(sc.tbls[i].BlockIndices[k]))
	}
}

func Harness_C07_sendrecv() {
	sc := zzBuild(zzverif.Param("scenario", 0))
	dst := zzrepo.NewObjStore()
	n := len(sc.commits)
	// what the destination already has: commit 0 with its table (then it is a common commit),
	// and/or just the first block of commit 0's table
	have0 := zzverif.Bool("dstHasCommit0")
	haveBlock := zzverif.Bool("dstHasFirstBlock")
	var common [][]byte
	first := 0
	if have0 {
		zzCopyCommit(dst, sc, 0)
		common = append(common, sc.commits[0].Sum)
		first = 1
	} else if haveBlock {
		zzrepo.CopyKey(dst, sc.src, "blk/"+string(sc.tbls[0].Blocks[0]))
	}
	toSend := sc.commits[first:]
	tables := map[string]struct{}{}
	for i := first; i < n; i++ {
		tables[string(sc.tables[i])] = struct{}{}
	}
	max := zzverif.Uint64("maxPackfileSize")
	sender, err := NewObjectSender(sc.src, toSend, tables, common, max)
	zzverif.Assert("sender-created", err == nil)
	if err != nil {
		return
	}
	var order []string
	recv := NewObjectReceiver(dst, [][]byte{sc.commits[n-1].Sum}, logr.Discard(), WithReceiverSaveObjectHook(func(t int, sum []byte) {
		order = append(order, fmt.Sprintf("%d/%s", t, string(sum)))
	}))
	packs := 0
	totalObjs := 0
	for {
		packs++
		if packs > 40 {
			zzverif.Assert("transfer-terminates", false)
			return
		}
		buf := bytes.NewBuffer(nil)
		done, info, err := sender.WriteObjects(buf, nil)
		zzverif.Assert("sender-no-error", err == nil)
		if err != nil {
			return
		}
		totalObjs += len(info.Objects)
		pr, err := packfile.NewPackfileReader(io.NopCloser(bytes.NewReader(buf.Bytes())))
		zzverif.Assert("packfile-readable", err == nil)
		if err != nil {
			return
		}
		rdone, err := recv.Receive(pr, nil)
		zzverif.Assert("receiver-accepts-what-sender-sends", err == nil)
		if err != nil {
			return
		}
		if done {
			zzverif.Assert("receiver-done-when-sender-done", rdone)
			break
		}
		zzverif.Assert("receiver-not-done-before-last-commit", !rdone)
	}
	// byte-identical objects under identical identifiers
	for i := 0; i < n; i++ {
		for _, p := range []string{"com/" + string(sc.commits[i].Sum), "tbl/" + string(sc.tables[i])} {
			a, okA := sc.src.M[p]
			b, okB := dst.M[p]
			zzverif.Assert("object-present-at-destination", okA && okB)
			zzverif.Assert("object-bytes-identical", bytes.Equal(a, b))
		}
		for k, blk := range sc.tbls[i].Blocks {
			a := sc.src.M["blk/"+string(blk)]
			b, ok := dst.M["blk/"+string(blk)]
			zzverif.Assert("block-present-and-identical", ok && bytes.Equal(a, b))
			ia := sc.src.M["blkidx/"+string(sc.tbls[i].BlockIndices[k])]
			ib, ok := dst.M["blkidx/"+string(sc.tbls[i].BlockIndices[k])]
			zzverif.Assert("block-index-rebuilt-identically", ok && bytes.Equal(ia, ib))
		}
		ta := sc.src.M["tblidx/"+string(sc.tables[i])]
		tb, ok := dst.M["tblidx/"+string(sc.tables[i])]
		zzverif.Assert("table-index-rebuilt-identically", ok && bytes.Equal(ta, tb))
		_, ok = dst.M["tblsum/"+string(sc.tables[i])]
		zzverif.Assert("table-profile-present", ok || (have0 && i == 0))
		if zzverif.Param("structure", 0) == 1 {
			// C03 on the received table: row count, block fill, key order, block indices, table index
			zzrepo.CheckStructure(dst, sc.tables[i])
		}
	}
	// nothing but these objects arrived
	for k := range dst.M {
		_, ok := sc.src.M[k]
		zzverif.Assert("no-foreign-object-at-destination", ok || strings.HasPrefix(k, "tblsum/"))
	}
	// order accepted by the receiver: blocks before their table, table before/with commit, parents before children
	pos := map[string]int{}
	for i, o := range order {
		if _, dup := pos[o]; dup {
			zzverif.Assert("no-object-saved-twice", false)
		}
		pos[o] = i + 1
	}
	for i := first; i < n; i++ {
		cp := pos[fmt.Sprintf("%d/%s", packfile.ObjectCommit, string(sc.commits[i].Sum))]
		zzverif.Assert("commit-was-received", cp > 0)
		for _, p := range sc.commits[i].Parents {
			pp := pos[fmt.Sprintf("%d/%s", packfile.ObjectCommit, string(p))]
			zzverif.Assert("parent-before-child", pp < cp)
		}
		tp := pos[fmt.Sprintf("%d/%s", packfile.ObjectTable, string(sc.tables[i]))]
		if tp > 0 {
			zzverif.Assert("table-before-its-commit", tp < cp)
			for _, blk := range sc.tbls[i].Blocks {
				bp := pos[fmt.Sprintf("%d/%s", packfile.ObjectBlock, string(blk))]
				zzverif.Assert("block-before-its-table", bp < tp)
			}
		}
	}
	zzverif.Observe("packs", packs, totalObjs)
	zzverif.Reach("end")
}

// A commit must never be accepted while a parent is missing.
func Harness_C07_missing_parent() {
	sc := zzBuild(zzverif.Param("scenario", 0))
	dst := zzrepo.NewObjStore()
	n := len(sc.commits)
	last := sc.commits[n-1]
	tables := map[string]struct{}{string(sc.tables[n-1]): {}}
	sender, err := NewObjectSender(sc.src, []*objects.Commit{last}, tables, nil, zzverif.Uint64("maxPackfileSize"))
	zzverif.Assert("sender-created", err == nil)
	if err != nil {
		return
	}
	// which of the last commit's parents the destination already has: none (default) or a
	// subset chosen by the explorer (somePresent=1); the commit may only be accepted when
	// every parent is there
	allPresent := len(last.Parents) > 0
	if zzverif.Param("somePresent", 0) == 1 {
		for _, p := range last.Parents {
			if zzverif.Bool("parentPresent") {
				zzrepo.CopyKey(dst, sc.src, "com/"+string(p))
			} else {
				allPresent = false
			}
		}
	} else {
		allPresent = false
	}
	zzverif.Assume(!allPresent)
	recv := NewObjectReceiver(dst, [][]byte{last.Sum}, logr.Discard())
	refused := false
	for packs := 0; packs < 40; packs++ {
		buf := bytes.NewBuffer(nil)
		done, _, err := sender.WriteObjects(buf, nil)
		if err != nil {
			break
		}
		pr, err := packfile.NewPackfileReader(io.NopCloser(bytes.NewReader(buf.Bytes())))
		if err != nil {
			break
		}
		if _, err := recv.Receive(pr, nil); err != nil {
			refused = true
			break
		}
		if done {
			break
		}
	}
	zzverif.Assert("commit-with-missing-parent-refused", refused)
	zzverif.Assert("commit-with-missing-parent-not-stored", !objects.CommitExist(dst, last.Sum))
	zzverif.Reach("end")
}

// The same exchange for ANY state of the destination: an ancestor-closed set of
// commits it already has (they are the common commits), for every other table
// whether it is already there in full (and if so whether the negotiation
// acknowledged it, so that the sender leaves it out, or not, so that it arrives a
// second time), and for tables that are not there which of their blocks are.
func Harness_C07_sendrecv_any() {
	sc := zzBuild(zzverif.Param("scenario", 0))
	dst := zzrepo.NewObjStore()
	n := len(sc.commits)
	idx := map[string]int{}
	for i, c := range sc.commits {
		idx[string(c.Sum)] = i
	}
	had := make([]bool, n)
	var common [][]byte
	for i := 0; i < n-1; i++ {
		if zzverif.Bool("dstHasCommit") {
			ok := true
			for _, p := range sc.commits[i].Parents {
				if !had[idx[string(p)]] {
					ok = false
				}
			}
			zzverif.Assume(ok)
			had[i] = true
			zzCopyCommit(dst, sc, i)
			common = append(common, sc.commits[i].Sum)
		}
	}
	tables := map[string]struct{}{}
	tableThere := map[string]bool{}
	for i := 0; i < n; i++ {
		if had[i] {
			tableThere[string(sc.tables[i])] = true
		}
	}
	var toSend []*objects.Commit
	for i := 0; i < n; i++ {
		if had[i] {
			continue
		}
		toSend = append(toSend, sc.commits[i])
		t := string(sc.tables[i])
		if _, seen := tables[t]; seen || tableThere[t] {
			if !tableThere[t] {
				continue
			}
			// the table is at the destination already (through a commit it has): the
			// negotiation may or may not have acknowledged it
			if !zzverif.Bool("tableAcked") {
				tables[t] = struct{}{}
			}
			continue
		}
		if zzverif.Bool("dstHasTable") {
			zzCopyTable(dst, sc, i)
			tableThere[t] = true
			if !zzverif.Bool("tableAcked") {
				tables[t] = struct{}{}
			}
			continue
		}
		tables[t] = struct{}{}
		for k, b := range sc.tbls[i].Blocks {
			if k < 2 && zzverif.Bool("dstHasBlock") {
				zzrepo.CopyKey(dst, sc.src, "blk/"+string(b))
			}
		}
	}
	before := map[string][]byte{}
	for k, v := range dst.M {
		before[k] = v
	}
	max := zzverif.Uint64("maxPackfileSize")
	sender, err := NewObjectSender(sc.src, toSend, tables, common, max)
	zzverif.Assert("sender-created", err == nil)
	if err != nil {
		return
	}
	var order []string
	recv := NewObjectReceiver(dst, [][]byte{sc.commits[n-1].Sum}, logr.Discard(), WithReceiverSaveObjectHook(func(t int, sum []byte) {
		order = append(order, fmt.Sprintf("%d/%s", t, string(sum)))
	}))
	packs := 0
	for {
		packs++
		if packs > 60 {
			zzverif.Assert("transfer-terminates", false)
			return
		}
		buf := bytes.NewBuffer(nil)
		done, _, err := sender.WriteObjects(buf, nil)
		zzverif.Assert("sender-no-error", err == nil)
		if err != nil {
			return
		}
		pr, err := packfile.NewPackfileReader(io.NopCloser(bytes.NewReader(buf.Bytes())))
		zzverif.Assert("packfile-readable", err == nil)
		if err != nil {
			return
		}
		rdone, err := recv.Receive(pr, nil)
		zzverif.Assert("receiver-accepts-what-sender-sends", err == nil)
		if err != nil {
			return
		}
		if done {
			zzverif.Assert("receiver-done-when-sender-done", rdone)
			break
		}
		zzverif.Assert("receiver-not-done-before-last-commit", !rdone)
	}
	for i := 0; i < n; i++ {
		for _, p := range []string{"com/" + string(sc.commits[i].Sum), "tbl/" + string(sc.tables[i])} {
			a, okA := sc.src.M[p]
			b, okB := dst.M[p]
			zzverif.Assert("object-present-at-destination", okA && okB)
			zzverif.Assert("object-bytes-identical", bytes.Equal(a, b))
		}
		for k, blk := range sc.tbls[i].Blocks {
			a := sc.src.M["blk/"+string(blk)]
			b, ok := dst.M["blk/"+string(blk)]
			zzverif.Assert("block-present-and-identical", ok && bytes.Equal(a, b))
			ia := sc.src.M["blkidx/"+string(sc.tbls[i].BlockIndices[k])]
			ib, ok := dst.M["blkidx/"+string(sc.tbls[i].BlockIndices[k])]
			zzverif.Assert("block-index-rebuilt-identically", ok && bytes.Equal(ia, ib))
		}
		ta := sc.src.M["tblidx/"+string(sc.tables[i])]
		tb, ok := dst.M["tblidx/"+string(sc.tables[i])]
		zzverif.Assert("table-index-rebuilt-identically", ok && bytes.Equal(ta, tb))
	}
	for k, v := range before {
		if strings.HasPrefix(k, "tblsum/") {
			continue
		}
		zzverif.Assert("nothing-the-destination-had-is-changed", bytes.Equal(dst.M[k], v))
	}
	for k := range dst.M {
		_, ok := sc.src.M[k]
		zzverif.Assert("no-foreign-object-at-destination", ok || strings.HasPrefix(k, "tblsum/"))
	}
	pos := map[string]int{}
	for i, o := range order {
		if _, dup := pos[o]; dup {
			zzverif.Assert("no-object-saved-twice", false)
		}
		pos[o] = i + 1
	}
	for i := 0; i < n; i++ {
		if had[i] {
			continue
		}
		cp := pos[fmt.Sprintf("%d/%s", packfile.ObjectCommit, string(sc.commits[i].Sum))]
		zzverif.Assert("commit-was-received", cp > 0)
		for _, p := range sc.commits[i].Parents {
			if had[idx[string(p)]] {
				continue
			}
			pp := pos[fmt.Sprintf("%d/%s", packfile.ObjectCommit, string(p))]
			zzverif.Assert("parent-before-child", pp > 0 && pp < cp)
		}
		tp := pos[fmt.Sprintf("%d/%s", packfile.ObjectTable, string(sc.tables[i]))]
		if tp > 0 {
			for _, blk := range sc.tbls[i].Blocks {
				bp := pos[fmt.Sprintf("%d/%s", packfile.ObjectBlock, string(blk))]
				if bp > 0 {
					zzverif.Assert("block-before-its-table", bp < tp)
				}
			}
		}
	}
	if packs > 1 {
		zzverif.Reach("several-packfiles")
	}
	zzverif.Reach("end")
}
