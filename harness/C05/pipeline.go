//go:build verif

package merge

import (
	"context"
	"fmt"

	"github.com/go-logr/logr"
	"github.com/wrgl/wrgl/pkg/diff"
	"github.com/wrgl/wrgl/pkg/objects"
	"github.com/wrgl/wrgl/pkg/zzverif"
	"github.com/wrgl/wrgl/pkg/zzverif/zzrepo"
)

// C05-H2: the whole merge pipeline - Merger.Start (two real DiffTables, the
// mergeTables goroutine with reflect.Select, RowResolver), the RowCollector with
// its on-disk HashSet of resolved keys and its Sorter, collectRowsThatStayedTheSame
// and SortedRows - on a base table and two branches whose non-key cells are
// symbolic. Branch 1 may only touch column b, branch 2 only column c (and each may
// remove a row the other leaves alone, or add a new row), so no conflict can
// arise and the expected result is fully determined: per key, the base row with
// each branch's edits applied, under its own column names.
//
// meow runs in "ids" mode (hash of symbolic bytes = a concrete identifier chosen by
// forking on equality with earlier inputs), so that hash-keyed maps, block indices
// and the hash-set file work on concrete hashes.

type zzPRow struct {
	key  string
	b, c string
	gone bool
}

func zzPTable(db objects.Store, cols []string, keyCol string, rows []zzPRow) ([]byte, *objects.Table) {
	var data [][]string
	for _, r := range rows {
		if r.gone {
			continue
		}
		row := make([]string, len(cols))
		for i, c := range cols {
			switch c {
			case "a":
				row[i] = r.key
			case "b":
				row[i] = r.b
			case "c":
				row[i] = r.c
			}
		}
		data = append(data, row)
	}
	var pk []uint32
	if keyCol != "" {
		pk = []uint32{uint32(zzColIdx(cols, keyCol))}
	}
	return zzrepo.SaveTable(db, cols, pk, data, 255)
}

func Harness_C05_pipeline() {
	nrows := zzverif.Param("rows", 2)
	layout := zzverif.Param("layout", 0)
	cols := [][]string{{"a", "b", "c"}, {"b", "a", "c"}, {"b", "c", "a"}}[layout]
	keyCol := "a"
	db := zzrepo.NewObjStore()
	base := make([]zzPRow, nrows)
	for i := range base {
		base[i] = zzPRow{key: fmt.Sprintf("%d", i+1), b: zzverif.String("base.b", 1), c: zzverif.String("base.c", 1)}
	}
	b1 := append([]zzPRow{}, base...)
	b2 := append([]zzPRow{}, base...)
	untouched := false
	for i := range base {
		kind := 0
		if zzverif.Param("fixedEdit", 0) == 1 {
			// larger tables: no choice per row, branch 1 edits the even rows, branch 2 the odd ones
			kind = 1 + i%2
		} else {
			kind = zzverif.Choose("edit", 5)
		}
		if zzverif.Param("fixedEdit", 0) == 1 {
			// the new value is one byte longer than the old one, hence different
			if kind == 1 {
				b1[i].b = zzverif.String("b1.b", 2)
			} else {
				b2[i].c = zzverif.String("b2.c", 2)
			}
			continue
		}
		switch kind {
		case 0: // untouched by both
			untouched = true
		case 1: // branch 1 edits b
			b1[i].b = zzverif.String("b1.b", 1)
			zzverif.Assume(b1[i].b != base[i].b)
		case 2: // branch 2 edits c
			b2[i].c = zzverif.String("b2.c", 1)
			zzverif.Assume(b2[i].c != base[i].c)
		case 3: // both edit, disjoint cells
			b1[i].b = zzverif.String("b1.b", 1)
			b2[i].c = zzverif.String("b2.c", 1)
			zzverif.Assume(b1[i].b != base[i].b && b2[i].c != base[i].c)
		case 4: // branch 1 removes the row, branch 2 leaves it alone
			b1[i].gone = true
		}
	}
	_ = untouched
	zzverif.Region("key-column-not-first", layout != 0)
	if zzverif.Param("addRow", 0) == 1 {
		b1 = append(b1, zzPRow{key: "9", b: zzverif.String("new.b", 1), c: zzverif.String("new.c", 1)})
	}
	baseSum, baseT := zzPTable(db, cols, keyCol, base)
	s1, t1 := zzPTable(db, cols, keyCol, b1)
	s2, t2 := zzPTable(db, cols, keyCol, b2)
	collector, cleanup, err := CreateRowCollector(db, baseT)
	if err != nil {
		panic(err)
	}
	buf, err := diff.BlockBufferWithSingleStore(db, []*objects.Table{baseT, t1, t2})
	if err != nil {
		panic(err)
	}
	merger, err := NewMerger(db, collector, buf, 0, baseT, []*objects.Table{t1, t2}, baseSum, [][]byte{s1, s2}, logr.Discard())
	if err != nil {
		panic(err)
	}
	ch, err := merger.Start()
	zzverif.Assert("merge-starts", err == nil)
	if err != nil {
		return
	}
	conflicts := 0
	for m := range ch {
		if m.ColDiff != nil {
			continue
		}
		conflicts++
	}
	zzverif.Assert("disjoint-edits-combine-without-conflict", conflicts == 0)
	zzverif.Assert("merge-no-error", merger.Error() == nil)
	rc, err := merger.SortedRows(context.Background(), nil)
	zzverif.Assert("sorted-rows-no-error", err == nil)
	if err != nil {
		return
	}
	var out [][]string
	for blk := range rc {
		for _, row := range blk.Rows {
			out = append(out, append([]string{}, row...))
		}
	}
	outCols := merger.Columns(nil)
	ka, kb, kc := zzColIdx(outCols, "a"), zzColIdx(outCols, "b"), zzColIdx(outCols, "c")
	zzverif.Assert("result-has-the-three-columns", len(outCols) == 3 && ka >= 0 && kb >= 0 && kc >= 0)
	if len(outCols) != 3 || ka < 0 || kb < 0 || kc < 0 {
		return
	}
	// expected rows
	var want []zzPRow
	for i := range base {
		if b1[i].gone {
			continue
		}
		want = append(want, zzPRow{key: base[i].key, b: b1[i].b, c: b2[i].c})
	}
	if len(b1) > len(base) {
		want = append(want, b1[len(base)])
	}
	zzverif.Assert("result-row-count", len(out) == len(want))
	for _, w := range want {
		found := 0
		for _, o := range out {
			if len(o) == 3 && o[ka] == w.key {
				found++
				zzverif.Assert("merged-row-carries-each-branch-s-change-under-its-own-column-name", zzverif.And(o[kb] == w.b, o[kc] == w.c))
			}
		}
		zzverif.Assert("every-expected-key-present-exactly-once", found == 1)
	}
	cleanup()
	zzverif.Reach("end")
}
