//go:build verif

package merge

import (
	"github.com/wrgl/wrgl/pkg/diff"
	"github.com/wrgl/wrgl/pkg/objects"
	"github.com/wrgl/wrgl/pkg/zzverif"
	"github.com/wrgl/wrgl/pkg/zzverif/zzrepo"
)

// C05-H1: the real diff.CompareColumns + RowResolver.Resolve (tryResolve,
// RearrangeRow, BlockBuffer.GetRow over real one-row tables) on ONE key whose base
// row and per-layer rows have symbolic cells, for concrete column layouts
// (same / +column / -column / reordered / renamed) and every presence pattern
// (row unchanged / changed / removed per layer). The oracle is the cell-wise
// three-way rule of the statement, evaluated by column NAME.

var zzLayouts = [][]string{
	{"a", "b", "c"},      // 0 same as base
	{"a", "b", "c", "d"}, // 1 column added
	{"a", "b"},           // 2 column c removed
	{"a", "c", "b"},      // 3 reordered
	{"a", "e", "c"},      // 4 b renamed to e (= removed + added)
	{"b", "a", "c"},      // 5 key column a not in front
}

type zzLayer struct {
	cols    []string
	state   int // 0 unchanged, 1 changed (symbolic cells), 2 row removed
	row     []string
	id      []byte // stand-in for the row hash: equal ids <=> equal (layout, cells)
	tbl     *objects.Table
}

func zzColIdx(cols []string, name string) int {
	for i, c := range cols {
		if c == name {
			return i
		}
	}
	return -1
}

func zzSameRow(aCols, a, bCols, b []string) bool {
	if len(aCols) != len(bCols) {
		return false
	}
	for i := range aCols {
		if aCols[i] != bCols[i] {
			return false
		}
	}
	eq := true
	for i := range a {
		eq = zzverif.And(eq, a[i] == b[i])
	}
	return eq
}

func Harness_C05_resolve() {
	nLayers := zzverif.Param("layers", 2)
	baseCols := zzLayouts[zzverif.Param("base", 0)]
	pk := []string{"a"}
	if zzverif.Param("nopk", 0) == 1 {
		pk = nil
	}
	key := zzverif.String("key", 1)
	mkRow := func(name string, cols []string) []string {
		r := make([]string, len(cols))
		for i, c := range cols {
			if c == "a" && pk != nil {
				r[i] = key
			} else {
				r[i] = zzverif.String(name+"."+c, 1)
			}
		}
		return r
	}
	baseRow := mkRow("base", baseCols)
	db := zzrepo.NewAssocStore()
	pkIdx := func(cols []string) []uint32 {
		if pk == nil {
			return nil
		}
		return []uint32{uint32(zzColIdx(cols, "a"))}
	}
	_, baseTbl := zzrepo.SaveTable(db, baseCols, pkIdx(baseCols), [][]string{baseRow}, 255)
	layers := make([]*zzLayer, nLayers)
	others := make([][2][]string, nLayers)
	tbls := []*objects.Table{baseTbl}
	for i := range layers {
		l := &zzLayer{cols: zzLayouts[zzverif.Param("layout"+string(rune('1'+i)), 0)]}
		l.state = zzverif.Choose("state", 3)
		switch l.state {
		case 0: // unchanged: common columns carry the base values, new columns get a value
			l.row = make([]string, len(l.cols))
			for k, c := range l.cols {
				if j := zzColIdx(baseCols, c); j >= 0 {
					l.row[k] = baseRow[j]
				} else {
					l.row[k] = zzverif.String("added."+c, 1)
				}
			}
		case 1:
			l.row = mkRow("layer"+string(rune('1'+i)), l.cols)
		}
		rows := [][]string{l.row}
		if l.state == 2 {
			rows = [][]string{mkRow("dummy", l.cols)} // the table needs a row; it is not referenced
		}
		_, l.tbl = zzrepo.SaveTable(db, l.cols, pkIdx(l.cols), rows, 255)
		tbls = append(tbls, l.tbl)
		layers[i] = l
		others[i] = [2][]string{l.cols, pk}
	}
	// row identities: equal ids <=> same layout and equal cells (decided here, by forking)
	baseID := []byte("row-base........")
	for i, l := range layers {
		if l.state == 2 {
			continue
		}
		l.id = []byte("row-layer-" + string(rune('1'+i)) + ".....")
		if zzSameRow(baseCols, baseRow, l.cols, l.row) {
			l.id = baseID
			continue
		}
		for j := 0; j < i; j++ {
			if layers[j].state != 2 && zzSameRow(layers[j].cols, layers[j].row, l.cols, l.row) {
				l.id = layers[j].id
			}
		}
	}
	cd := diff.CompareColumns([2][]string{baseCols, pk}, others...)
	buf, err := diff.BlockBufferWithSingleStore(db, tbls)
	if err != nil {
		panic(err)
	}
	m := &Merge{PK: []byte("0123456789abcdef"), Base: baseID, Others: make([][]byte, nLayers), OtherOffsets: make([]uint32, nLayers)}
	for i, l := range layers {
		m.Others[i] = l.id
	}
	r := NewRowResolver(db, cd, buf)
	zzverif.Assert("resolve-no-error", r.Resolve(m) == nil)

	// ---- oracle, by column name ----
	removedSomewhere, changedSomewhere := false, false
	for _, l := range layers {
		if l.state == 2 {
			removedSomewhere = true
		}
	}
	allGoneOrSame := true
	for _, l := range layers {
		if l.state != 2 && string(l.id) != string(baseID) {
			allGoneOrSame = false
		}
	}
	if allGoneOrSame {
		// removed in some/all layers and untouched elsewhere, or untouched everywhere: nothing to resolve
		zzverif.Assert("no-change-or-pure-removal-is-resolved", m.Resolved)
		zzverif.Reach("trivial")
		return
	}
	zzverif.Assert("resolved-row-has-union-layout", len(m.ResolvedRow) == len(cd.Names))
	if len(m.ResolvedRow) != len(cd.Names) {
		return
	}
	conflicts := 0
	for ci, name := range cd.Names {
		_, flagged := m.UnresolvedCols[uint32(ci)]
		bj := zzColIdx(baseCols, name)
		// collect the distinct changes made to this cell by the layers that still have the row
		var vals []string // changed values (column present in layer and differs from base / column added)
		colRemoved := false
		for _, l := range layers {
			if l.state == 2 {
				continue
			}
			lj := zzColIdx(l.cols, name)
			switch {
			case lj < 0 && bj >= 0:
				colRemoved = true
			case lj >= 0 && bj < 0:
				vals = append(vals, l.row[lj])
			case lj >= 0 && bj >= 0:
				if l.row[lj] != baseRow[bj] {
					vals = append(vals, l.row[lj])
				}
			}
		}
		if len(vals) > 0 {
			changedSomewhere = true
		}
		distinct := false
		for x := 1; x < len(vals); x++ {
			if vals[x] != vals[0] {
				distinct = true
			}
		}
		switch {
		case distinct:
			conflicts++
			zzverif.Assert("different-changes-to-one-cell-are-flagged-never-silently-picked", flagged)
		case len(vals) > 0 && colRemoved:
			conflicts++
			zzverif.Assert("column-removed-by-one-layer-and-modified-by-another-is-flagged", flagged)
		case len(vals) > 0 && removedSomewhere && bj >= 0:
			// row removed in one layer, cell modified in another: conflict at row level (checked below)
		case len(vals) > 0:
			zzverif.Assert("single-distinct-change-wins", !flagged && m.ResolvedRow[ci] == vals[0])
		case bj >= 0 && !colRemoved:
			zzverif.Assert("untouched-cell-keeps-base-value-under-its-own-column-name", !flagged && m.ResolvedRow[ci] == baseRow[bj])
		}
	}
	if removedSomewhere {
		zzverif.Assert("row-removed-in-one-layer-and-changed-in-another-is-a-conflict", !m.Resolved)
	} else {
		zzverif.Assert("resolved-exactly-when-no-conflict", m.Resolved == (conflicts == 0))
	}
	_ = changedSomewhere
	zzverif.Reach("end")
}
