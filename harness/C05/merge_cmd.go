//go:build verif

package wrgl

import (
	"context"
	"fmt"
	"io"
	"time"

	"github.com/go-logr/logr"
	"github.com/spf13/cobra"
	"github.com/wrgl/wrgl/cmd/wrgl/utils"
	"github.com/wrgl/wrgl/pkg/conf"
	"github.com/wrgl/wrgl/pkg/doctor"
	"github.com/wrgl/wrgl/pkg/objects"
	"github.com/wrgl/wrgl/pkg/pbar"
	"github.com/wrgl/wrgl/pkg/zzverif"
	"github.com/wrgl/wrgl/pkg/zzverif/zzrepo"
)

// C05 at the command layer: the real runMerge (cmd/wrgl) - commit name
// resolution, SeekCommonAncestor, Merger, collectMergeConflicts, the computation of
// the columns to drop, commitMergeResult (SortedBlocks -> IngestTableFromBlocks) and
// createMergeCommit - on a base commit and two branch commits whose non-key cells
// are symbolic. Each branch may remove one column of its own (b by the first, c by
// the second branch, or both by either) and edits column d on its own rows, so no
// conflict arises; the committed merge result must be: the columns nobody removed,
// and per key the base row with each branch's edits.
//
// Under gosym utils.WithProgressBar is replaced by zz5WithProgressBar (a quiet
// container: no terminal), ingest.ProfileTable by a no-op (summary statistics are
// outside the statement) and tickers never fire.

func zz5WithProgressBar(cmd *cobra.Command, quiet bool, run func(cmd *cobra.Command, barContainer *pbar.Container) error) error {
	return run(cmd, pbar.NewContainer(io.Discard, true))
}

// zz5WithValue stands in for context.WithValue under gosym (reflectlite is not modelled).
type zz5Ctx struct {
	context.Context
	k, v any
}

func (c *zz5Ctx) Value(k any) any {
	if k == c.k {
		return c.v
	}
	return c.Context.Value(k)
}

func zz5WithValue(parent context.Context, key, val any) context.Context {
	return &zz5Ctx{parent, key, val}
}

func zz5ProfileTable(db objects.Store, sum []byte, tbl *objects.Table) error { return nil }

type zz5Row struct {
	a, b, c, d string
}

func zz5Save(db *zzrepo.ObjStore, cols []string, rows []zz5Row) []byte {
	var data [][]string
	for _, r := range rows {
		row := make([]string, len(cols))
		for i, c := range cols {
			switch c {
			case "a":
				row[i] = r.a
			case "b":
				row[i] = r.b
			case "c":
				row[i] = r.c
			case "d":
				row[i] = r.d
			}
		}
		data = append(data, row)
	}
	sum, _ := zzrepo.SaveTable(db, cols, []uint32{0}, data, 255)
	return sum
}

func zz5Without(cols []string, rm map[string]bool) []string {
	var out []string
	for _, c := range cols {
		if !rm[c] {
			out = append(out, c)
		}
	}
	return out
}

func Harness_C05_merge_cmd() {
	nrows := zzverif.Param("rows", 2)
	rm1 := zzverif.Param("rm1", 0) // bit 0: first branch removes b, bit 1: removes c
	rm2 := zzverif.Param("rm2", 0) // the same for the second branch
	swap := zzverif.Param("swap", 0)
	db := zzrepo.NewObjStore()
	rs := zzrepo.NewRefStore()
	all := []string{"a", "b", "c", "d"}
	base := make([]zz5Row, nrows)
	for i := range base {
		base[i] = zz5Row{a: fmt.Sprintf("%d", i+1), b: zzverif.String("base.b", 1), c: zzverif.String("base.c", 1), d: zzverif.String("base.d", 1)}
	}
	r1 := append([]zz5Row{}, base...)
	r2 := append([]zz5Row{}, base...)
	for i := range base {
		switch zzverif.Choose("edit", 3) {
		case 0:
			r1[i].d = zzverif.String("b1.d", 1)
			zzverif.Assume(r1[i].d != base[i].d)
		case 1:
			r2[i].d = zzverif.String("b2.d", 1)
			zzverif.Assume(r2[i].d != base[i].d)
		case 2: // untouched by both
		}
	}
	rmA := map[string]bool{"b": rm1&1 != 0, "c": rm1&2 != 0}
	rmB := map[string]bool{"b": rm2&1 != 0, "c": rm2&2 != 0}
	tBase := zz5Save(db, all, base)
	t1 := zz5Save(db, zz5Without(all, rmA), r1)
	t2 := zz5Save(db, zz5Without(all, rmB), r2)
	c0, _ := zzrepo.SaveCommit(db, tBase, "base", 1000000000)
	c1, _ := zzrepo.SaveCommit(db, t1, "one", 1000000010, c0)
	c2, _ := zzrepo.SaveCommit(db, t2, "two", 1000000020, c0)
	rs.Refs["heads/main"] = c1
	rs.Refs["heads/other"] = c2
	args := []string{"main", "other"}
	first, second := rmA, rmB
	if swap == 1 {
		rs.Refs["heads/main"] = c2
		rs.Refs["heads/other"] = c1
		first, second = rmB, rmA
	}
	_, _ = first, second

	cmd := &cobra.Command{Use: "merge"}
	cmd.SetOut(io.Discard)
	cmd.SetErr(io.Discard)
	if !zzverif.UnderGosym() {
		utils.SetupProgressBarFlags(cmd.Flags())
		cmd.Flags().Set("no-progress", "true")
	}
	logger := logr.Discard()
	cmd.SetContext(utils.SetLogger(context.Background(), &logger))
	cfg := &conf.Config{User: &conf.User{Name: "u", Email: "u@x"}}
	err := runMerge(cmd, cfg, db, rs, args, false, false, conf.FF_Default, "", 1, "", nil)
	zzverif.Assert("merge-command-succeeds", err == nil)
	if err != nil {
		return
	}
	head := rs.Refs["heads/main"]
	com, err := objects.GetCommit(db, head)
	zzverif.Assert("merge-commit-readable", err == nil)
	if err != nil {
		return
	}
	zzverif.Assert("merge-commit-has-both-parents", len(com.Parents) == 2)
	tbl, err := objects.GetTable(db, com.Table)
	zzverif.Assert("merged-table-readable", err == nil)
	if err != nil {
		return
	}
	removed := map[string]bool{"b": rmA["b"] || rmB["b"], "c": rmA["c"] || rmB["c"]}
	want := zz5Without(all, removed)
	colsOK := len(tbl.Columns) == len(want)
	if colsOK {
		for i := range want {
			if tbl.Columns[i] != want[i] {
				colsOK = false
			}
		}
	}
	zzverif.Assert("result-columns-are-those-no-branch-removed", colsOK)
	zzverif.Assert("result-key-is-the-key-column", len(tbl.PK) == 1 && tbl.Columns[tbl.PK[0]] == "a")
	var out [][]string
	var bb []byte
	for _, bsum := range tbl.Blocks {
		var blk [][]string
		blk, bb, err = objects.GetBlock(db, bb, bsum)
		zzverif.Assert("merged-block-readable", err == nil)
		if err != nil {
			return
		}
		out = append(out, blk...)
	}
	zzverif.Assert("result-row-count", len(out) == nrows && int(tbl.RowsCount) == nrows)
	if !colsOK || len(out) != nrows {
		return
	}
	for i := range base {
		exp := zz5Row{a: base[i].a, b: base[i].b, c: base[i].c, d: base[i].d}
		if r1[i].d != base[i].d {
			exp.d = r1[i].d
		}
		if r2[i].d != base[i].d {
			exp.d = r2[i].d
		}
		ok := true
		for j, c := range want {
			v := ""
			switch c {
			case "a":
				v = exp.a
			case "b":
				v = exp.b
			case "c":
				v = exp.c
			case "d":
				v = exp.d
			}
			if out[i][j] != v {
				ok = false
			}
		}
		zzverif.Assert("result-row-is-base-with-each-branch-edits", ok)
	}
	_ = time.Second
	if zzverif.Param("structure", 0) == 1 {
		// C03: a table produced by a merge commit is structurally sound and the
		// repository's own diagnosis finds nothing wrong with any ref
		zzrepo.CheckStructure(db, com.Table)
		d := doctor.NewDoctor(db, rs, *cfg.User, logr.Discard())
		issCh, errCh, derr := d.Diagnose(context.Background(), nil, nil, nil)
		zzverif.Assert("diagnosis-starts", derr == nil)
		if derr == nil {
			n := 0
			for ri := range issCh {
				n += len(ri.Issues)
			}
			zzverif.Assert("diagnosis-no-error", <-errCh == nil)
			zzverif.Assert("own-diagnosis-reports-no-issue-after-a-merge-commit", n == 0)
		}
	}
	zzverif.Reach("end")
}
