//go:build verif

package merge

import (
	"fmt"

	"github.com/wrgl/wrgl/pkg/diff"
	"github.com/wrgl/wrgl/pkg/zzverif"
)

// C05 (column layout of wide tables): the real diff.CompareColumns on a base of W data
// columns whose key column is the LAST one (so that hoisting it to the front runs
// sort.Stable's block-rotation phase, past the 20-element insertion-sort threshold, and
// shuttles flagged columns past each other). One branch removes two columns (which two is
// a choice), the other adds a column and removes one. By column NAME: a column is flagged
// removed for a layer exactly if that layer lacks it, added exactly if only that layer
// has it; the key comes first; RearrangeRow puts every cell under its own column name.
func Harness_C05_wide_layout() {
	w := zzverif.Param("width", 22)
	var base []string
	for i := 0; i < w-1; i++ {
		base = append(base, fmt.Sprintf("c%02d", i))
	}
	base = append(base, "id")
	pk := []string{"id"}
	r1 := zzverif.Choose("removedFirst", w-2)
	gap := 1 + zzverif.Choose("gap", 2) // the second removed column is next to the first or one further
	r2 := r1 + gap
	if r2 > w-2 {
		r2 = r1 - gap
	}
	var l1 []string
	for i, c := range base {
		if i != r1 && i != r2 {
			l1 = append(l1, c)
		}
	}
	r3 := zzverif.Choose("removedByOther", w-1)
	var l2 []string
	for i, c := range base {
		if i == r3 {
			l2 = append(l2, "new")
			continue
		}
		l2 = append(l2, c)
	}
	layers := [][]string{l1, l2}
	if zzverif.Param("swapLayers", 0) == 1 {
		layers = [][]string{l2, l1}
	}
	cd := diff.CompareColumns([2][]string{base, pk}, [2][]string{layers[0], pk}, [2][]string{layers[1], pk})
	zzverif.Assert("key-column-comes-first", len(cd.Names) > 0 && cd.Names[0] == "id")
	has := func(cols []string, name string) bool { return zzColIdx(cols, name) >= 0 }
	seen := map[string]int{}
	for _, nme := range cd.Names {
		seen[nme]++
	}
	for _, c := range append(append([]string{}, base...), "new") {
		zzverif.Assert("every-column-of-any-table-listed-once", seen[c] == 1)
	}
	zzverif.Assert("no-other-column-listed", len(cd.Names) == w+1)
	for li, cols := range layers {
		for pos, nme := range cd.Names {
			_, rem := cd.Removed[li][uint32(pos)]
			_, add := cd.Added[li][uint32(pos)]
			zzverif.Assert("column-flagged-removed-iff-the-branch-dropped-it", rem == (has(base, nme) && !has(cols, nme)))
			zzverif.Assert("column-flagged-added-iff-the-branch-introduced-it", add == (!has(base, nme) && has(cols, nme)))
		}
		row := make([]string, len(cols))
		for i, c := range cols {
			row[i] = "v-" + c
		}
		out := cd.RearrangeRow(li, row)
		zzverif.Assert("rearranged-row-has-one-cell-per-listed-column", len(out) == len(cd.Names))
		for pos, nme := range cd.Names {
			if pos < len(out) && has(cols, nme) {
				zzverif.Assert("rearranged-row-keeps-each-cell-under-its-column-name", out[pos] == "v-"+nme)
			}
		}
	}
	zzverif.Reach("end")
}
