//go:build verif

package apiutils

import (
	"bytes"
	"fmt"
	"time"

	"github.com/wrgl/wrgl/pkg/objects"
	"github.com/wrgl/wrgl/pkg/zzverif"
	"github.com/wrgl/wrgl/pkg/zzverif/zzrepo"
)

// C08: the real ClosedSetsFinder (Process / CommitsToSend / TablesToSend, with the
// real CommitsQueue underneath) over all commit DAGs up to n commits with symbolic
// timestamps, symbolic ref / want / have sets (including an unknown have), one or
// two negotiation rounds and a depth parameter.
//
// As in C11, objects.GetCommit is replaced by a table lookup under gosym so that
// commit times can stay symbolic; the native replay saves real commits.

type zz8Graph struct {
	n       int
	edges   [][]bool
	commits []*objects.Commit
	sums    [][]byte
	tables  [][]byte
	db      *zzrepo.ObjStore
}

var zz8G *zz8Graph

func zz8GetCommit(s objects.Store, sum []byte) (*objects.Commit, error) {
	i := int(sum[0]) - 1
	if len(sum) != 16 || i < 0 || i >= len(zz8G.commits) || sum[1] != 0 {
		return nil, objects.ErrKeyNotFound
	}
	c := *zz8G.commits[i]
	c.Sum = sum
	return &c, nil
}

func zz8Build(n int) *zz8Graph {
	g := &zz8Graph{n: n, edges: make([][]bool, n), commits: make([]*objects.Commit, n), sums: make([][]byte, n), tables: make([][]byte, n), db: zzrepo.NewObjStore()}
	native := !zzverif.UnderGosym()
	for i := 0; i < n; i++ {
		g.edges[i] = make([]bool, n)
		ts := zzverif.Int64("t")
		zzverif.Assume(ts >= 1000000000 && ts < 1000001000)
		g.tables[i] = bytes.Repeat([]byte{byte(0x40 + i)}, 16)
		c := &objects.Commit{Table: g.tables[i], AuthorName: "a", AuthorEmail: "e", Message: fmt.Sprintf("c%d", i), Time: time.Unix(ts, 0)}
		for j := 0; j < i; j++ {
			if zzverif.Bool("edge") {
				g.edges[i][j] = true
				c.Parents = append(c.Parents, g.sums[j])
			}
		}
		g.commits[i] = c
		if native {
			buf := bytes.NewBuffer(nil)
			c.WriteTo(buf)
			sum, err := objects.SaveCommit(g.db, buf.Bytes())
			if err != nil {
				panic(err)
			}
			g.sums[i] = sum
		} else {
			s := make([]byte, 16)
			s[0] = byte(i + 1)
			g.sums[i] = s
		}
		// every commit is "full" (its table object exists) - shallow histories are C12/C09's subject
		g.db.M["tbl/"+string(g.tables[i])] = []byte{1}
	}
	zz8G = g
	return g
}

func (g *zz8Graph) idx(sum []byte) int {
	for i, s := range g.sums {
		if bytes.Equal(s, sum) {
			return i
		}
	}
	return -1
}

func (g *zz8Graph) reach(from, to int) bool {
	if from == to {
		return true
	}
	for j := 0; j < from; j++ {
		if g.edges[from][j] && g.reach(j, to) {
			return true
		}
	}
	return false
}

// dist = length of the shortest parent path from `from` to `to` (-1: unreachable)
func (g *zz8Graph) dist(from, to int) int {
	if from == to {
		return 0
	}
	best := -1
	for j := 0; j < from; j++ {
		if g.edges[from][j] {
			if d := g.dist(j, to); d >= 0 && (best < 0 || d+1 < best) {
				best = d + 1
			}
		}
	}
	return best
}

func Harness_C08_negotiate() {
	n := zzverif.Param("n", 3)
	depth := zzverif.Param("depth", 0)
	rounds := zzverif.Param("rounds", 1)
	g := zz8Build(n)
	rs := zzrepo.NewRefStore()
	refd := make([]bool, n)
	for i := 0; i < n; i++ {
		if zzverif.Bool("ref") {
			rs.Refs[fmt.Sprintf("heads/b%d", i)] = g.sums[i]
			refd[i] = true
		}
	}
	var wants [][]byte
	wanted := make([]bool, n)
	for i := 0; i < n; i++ {
		if zzverif.Bool("want") {
			wants = append(wants, g.sums[i])
			wanted[i] = true
		}
	}
	zzverif.Assume(len(wants) > 0)
	nestedWants := false
	for a := 0; a < n; a++ {
		for b := 0; b < n; b++ {
			if a != b && wanted[a] && wanted[b] && g.reach(a, b) {
				nestedWants = true
			}
		}
	}
	zzverif.Region("depth-limit-with-a-want-that-is-an-ancestor-of-another-want", depth > 0 && nestedWants)
	// nested=1 narrows the space to requests in which one want is an ancestor of another
	// and the client has nothing (the shapes in which a depth limit is counted from
	// several tips at once); used with the wants' map order as a choice point
	focus := zzverif.Param("nested", 0) == 1
	if focus {
		zzverif.Assume(nestedWants)
	}
	var haves [][]byte
	for i := 0; i < n; i++ {
		if !focus && zzverif.Bool("have") {
			haves = append(haves, g.sums[i])
		}
	}
	if !focus && zzverif.Bool("unknownHave") {
		haves = append(haves, bytes.Repeat([]byte{0xee}, 16))
	}
	fromRef := func(x int) bool {
		for r := 0; r < n; r++ {
			if refd[r] && g.reach(r, x) {
				return true
			}
		}
		return false
	}
	allReachable := true
	for i := 0; i < n; i++ {
		if wanted[i] && !fromRef(i) {
			allReachable = false
		}
	}
	f := NewClosedSetsFinder(g.db, rs, depth)
	var acks [][]byte
	var err error
	// whether the negotiation ends with done=true or is simply cut off (the caller then
	// asks for the commits anyway, as the push session does): a choice with symDone=1
	lastDone := true
	if zzverif.Param("symDone", 0) == 1 {
		lastDone = zzverif.Bool("lastRoundDone")
	}
	if rounds == 1 {
		acks, err = f.Process(wants, haves, lastDone)
	} else {
		k := len(haves) / 2
		var a1, a2 [][]byte
		a1, err = f.Process(wants, haves[:k], false)
		acks = append(acks, a1...)
		if err == nil {
			a2, err = f.Process(nil, haves[k:], lastDone)
			acks = append(acks, a2...)
		}
	}
	if !allReachable {
		zzverif.Assert("want-not-reachable-from-any-ref-is-refused", err != nil)
		zzverif.Reach("refused")
		return
	}
	zzverif.Assert("reachable-wants-accepted", err == nil)
	if err != nil {
		return
	}
	commonAnc := make([]bool, n)
	for _, a := range acks {
		ai := g.idx(a)
		zzverif.Assert("ack-is-a-known-commit", ai >= 0)
		if ai >= 0 {
			for x := 0; x < n; x++ {
				if g.reach(ai, x) {
					commonAnc[x] = true
				}
			}
		}
	}
	commits, err := f.CommitsToSend()
	zzverif.Assert("commits-to-send-no-error", err == nil)
	if err != nil {
		return
	}
	zzverif.Assert("send-list-is-polynomial-in-history-size", len(commits) <= n*n)
	sentAt := make([]int, n) // first position (1-based) in the list
	for p, c := range commits {
		ci := g.idx(c.Sum)
		zzverif.Assert("sent-commit-is-a-known-commit", ci >= 0)
		if ci < 0 {
			return
		}
		if sentAt[ci] == 0 {
			sentAt[ci] = p + 1
		}
		anc := false
		for w := 0; w < n; w++ {
			if wanted[w] && g.reach(w, ci) {
				anc = true
			}
		}
		zzverif.Assert("nothing-unreachable-from-the-wants-is-sent", anc)
		for j := 0; j < ci; j++ {
			if g.edges[ci][j] {
				zzverif.Assert("parents-are-common-or-appear-earlier", commonAnc[j] || (sentAt[j] > 0 && sentAt[j] <= p+1))
			}
		}
	}
	for x := 0; x < n; x++ {
		need := false
		for w := 0; w < n; w++ {
			if wanted[w] && g.reach(w, x) {
				need = true
			}
		}
		if need {
			zzverif.Assert("every-ancestor-of-every-want-is-sent-or-common", sentAt[x] > 0 || commonAnc[x])
		}
	}
	tables, err := f.TablesToSend()
	zzverif.Assert("tables-to-send-no-error", err == nil)
	if err != nil {
		return
	}
	for x := 0; x < n; x++ {
		_, sel := tables[string(g.tables[x])]
		within := false
		for w := 0; w < n; w++ {
			if wanted[w] {
				if d := g.dist(w, x); d >= 0 && (depth == 0 || d < depth) {
					within = true
				}
			}
		}
		if sentAt[x] > 0 && within {
			zzverif.Assert("table-selected-for-sent-commit-within-depth", sel)
		}
		if sentAt[x] == 0 || !within {
			zzverif.Assert("no-table-selected-beyond-depth-or-for-unsent-commit", !sel)
		}
	}
	zzverif.Observe("sent", len(commits), len(tables))
	zzverif.Reach("end")
}

// Ladder: commit i has every earlier commit as parent (concrete shape, symbolic
// timestamps only through their window). The number of parent paths doubles with
// every rung, so a walk that does not de-duplicate visits 2^(n-1) commits. The
// statement asks for polynomial time: the send list must stay within n^2 entries.
func Harness_C08_ladder() {
	n := zzverif.Param("n", 10)
	g := &zz8Graph{n: n, edges: make([][]bool, n), commits: make([]*objects.Commit, n), sums: make([][]byte, n), tables: make([][]byte, n), db: zzrepo.NewObjStore()}
	for i := 0; i < n; i++ {
		g.edges[i] = make([]bool, n)
		g.tables[i] = bytes.Repeat([]byte{byte(0x40 + i)}, 16)
		c := &objects.Commit{Table: g.tables[i], AuthorName: "a", AuthorEmail: "e", Message: fmt.Sprintf("c%d", i), Time: time.Unix(int64(1000000000+i), 0)}
		for j := 0; j < i; j++ {
			g.edges[i][j] = true
			c.Parents = append(c.Parents, g.sums[j])
		}
		g.commits[i] = c
		buf := bytes.NewBuffer(nil)
		c.WriteTo(buf)
		sum, err := objects.SaveCommit(g.db, buf.Bytes())
		if err != nil {
			panic(err)
		}
		g.sums[i] = sum
		g.db.M["tbl/"+string(g.tables[i])] = []byte{1}
	}
	rs := zzrepo.NewRefStore()
	rs.Refs["heads/main"] = g.sums[n-1]
	zzverif.Region("history-with-many-parent-paths", true)
	f := NewClosedSetsFinder(g.db, rs, 0)
	_, err := f.Process([][]byte{g.sums[n-1]}, nil, true)
	zzverif.Assert("ladder-accepted", err == nil)
	commits, err := f.CommitsToSend()
	zzverif.Assert("ladder-commits-no-error", err == nil)
	zzverif.Assert("send-list-is-polynomial-in-history-size", len(commits) <= n*n)
	zzverif.Observe("ladder", len(commits))
	zzverif.Reach("end")
}

// zz8CountStore counts object reads.
type zz8CountStore struct {
	*zzrepo.ObjStore
	reads int
}

func (s *zz8CountStore) Get(k []byte) ([]byte, error) {
	s.reads++
	return s.ObjStore.Get(k)
}

// The same ladder history, now on the side of the HAVES: the other side reports the
// top of the ladder (and optionally one more rung), the want is one new commit on top.
// Finding the common commits and remembering their ancestors has to stay polynomial:
// the number of object reads of the whole Process call is bounded by 4*n^2.
func Harness_C08_ladder_haves() {
	n := zzverif.Param("n", 12)
	db := &zz8CountStore{ObjStore: zzrepo.NewObjStore()}
	sums := make([][]byte, n+1)
	for i := 0; i <= n; i++ {
		table := bytes.Repeat([]byte{byte(0x40 + i)}, 16)
		c := &objects.Commit{Table: table, AuthorName: "a", AuthorEmail: "e", Message: fmt.Sprintf("c%d", i), Time: time.Unix(int64(1000000000+i), 0)}
		if i == n {
			c.Parents = append(c.Parents, sums[n-1])
		} else {
			for j := 0; j < i; j++ {
				c.Parents = append(c.Parents, sums[j])
			}
		}
		buf := bytes.NewBuffer(nil)
		c.WriteTo(buf)
		sum, err := objects.SaveCommit(db, buf.Bytes())
		if err != nil {
			panic(err)
		}
		sums[i] = sum
		db.M["tbl/"+string(table)] = []byte{1}
	}
	rs := zzrepo.NewRefStore()
	rs.Refs["heads/main"] = sums[n]
	haves := [][]byte{sums[n-1]}
	if zzverif.Bool("secondHave") {
		k := zzverif.Choose("secondHaveRung", n-1)
		if zzverif.Bool("secondHaveFirst") {
			haves = [][]byte{sums[k], sums[n-1]}
		} else {
			haves = append(haves, sums[k])
		}
	}
	f := NewClosedSetsFinder(db, rs, 0)
	db.reads = 0
	acks, err := f.Process([][]byte{sums[n]}, haves, true)
	zzverif.Assert("ladder-haves-accepted", err == nil)
	zzverif.Assert("ladder-haves-top-acknowledged", len(acks) >= 1)
	commits, err := f.CommitsToSend()
	zzverif.Assert("ladder-haves-commits-no-error", err == nil)
	zzverif.Assert("ladder-haves-only-the-new-commit-is-sent", len(commits) == 1 && bytes.Equal(commits[0].Sum, sums[n]))
	zzverif.Observe("reads", db.reads)
	zzverif.Assert("object-reads-polynomial-in-history-size", db.reads <= 4*n*n)
	zzverif.Reach("end")
}
