//go:build verif

package prune

import (
	"bytes"
	"fmt"

	"github.com/wrgl/wrgl/pkg/objects"
	"github.com/wrgl/wrgl/pkg/zzverif"
	"github.com/wrgl/wrgl/pkg/zzverif/zzrepo"
)

// C12: the real prune.Prune on repositories built through the real Save* API.
// Shape (which commits/edges/refs exist, which refs were deleted, which commits
// are shallow) is chosen by symbolic booleans and explored exhaustively within
// the bounds; where the absent table sum of a shallow commit sorts among the
// stored table keys is a choice too.

type zzCommit struct {
	sum     []byte
	table   int // index into tables, -1 = shallow (table absent)
	parents []int
}

func Harness_C12_prune() {
	nc := zzverif.Param("commits", 3)
	lite := zzverif.Param("lite", 0) == 1 // smaller shape space: refs are heads only and never deleted, 2 tables
	db := zzrepo.NewObjStore()
	rs := zzrepo.NewRefStore()
	// three tables over shared blocks: t0 = rows A, t1 = rows A+B (shares nothing block-wise unless identical), t2 = t0's rows (same table id)
	rowsets := [][][]string{
		{{"1", "x"}, {"2", "y"}},
		{{"1", "x"}, {"3", "z"}},
		{{"5", "q"}},
	}
	pks := [][]uint32{{0}, {0}, {0}}
	if zzverif.Param("sharedBlock", 0) == 1 {
		// a fourth table with the rows of the first under another primary key: the block is
		// the same object (stored once), the block index is not
		rowsets = append(rowsets, rowsets[0])
		pks = append(pks, []uint32{1})
	}
	var tblSums [][]byte
	var tbls []*objects.Table
	for k, rs := range rowsets {
		s, t := zzrepo.SaveTable(db, []string{"a", "b"}, pks[k], rs, 255)
		tblSums = append(tblSums, s)
		tbls = append(tbls, t)
	}
	// absent (never fetched) table sums: before every key / after every key / in between
	absent := [][]byte{bytes.Repeat([]byte{0x00}, 16), bytes.Repeat([]byte{0xff}, 16), append([]byte{}, tblSums[0]...)}
	absent[2][15]++
	commits := make([]*zzCommit, nc)
	shallowSeen := false
	for i := 0; i < nc; i++ {
		c := &zzCommit{}
		var ps [][]byte
		for j := 0; j < i; j++ {
			if zzverif.Bool("edge") {
				c.parents = append(c.parents, j)
				ps = append(ps, commits[j].sum)
			}
		}
		var tsum []byte
		if zzverif.Bool("shallow") {
			c.table = -1
			tsum = absent[zzverif.Choose("absentKind", 3)]
			shallowSeen = true
		} else {
			nt := len(tblSums)
			if lite {
				nt = 2
			}
			c.table = zzverif.Choose("table", nt)
			if lite && c.table == 1 && len(tblSums) == 4 {
				c.table = 3 // the table that shares its block with table 0
			}
			tsum = tblSums[c.table]
		}
		c.sum, _ = zzrepo.SaveCommit(db, tsum, fmt.Sprintf("c%d", i), int64(1600000000+i), ps...)
		commits[i] = c
	}
	// refs of every kind, each present by a symbolic bool
	kinds := []string{"heads/main", "tags/v1", "remotes/origin/main", "txs/0a000000-0000-0000-0000-000000000000/main"}
	refd := make([]bool, nc)
	anyRef := false
	for i := 0; i < nc; i++ {
		if zzverif.Bool("ref") {
			k := kinds[0]
			if !lite {
				k = kinds[zzverif.Choose("refKind", len(kinds))]
			}
			name := fmt.Sprintf("%s%d", k, i)
			rs.Refs[name] = commits[i].sum
			if !lite && zzverif.Bool("refDeleted") {
				delete(rs.Refs, name)
			} else {
				refd[i] = true
				anyRef = true
			}
		}
	}
	_ = anyRef
	// reachability oracle
	reach := make([]bool, nc)
	var mark func(i int)
	mark = func(i int) {
		if reach[i] {
			return
		}
		reach[i] = true
		for _, p := range commits[i].parents {
			mark(p)
		}
	}
	shallowReachable := false
	for i := 0; i < nc; i++ {
		if refd[i] {
			mark(i)
		}
	}
	for i := 0; i < nc; i++ {
		if reach[i] && commits[i].table == -1 {
			shallowReachable = true
		}
	}
	zzverif.Region("reachable-shallow-commit", shallowReachable)
	zzverif.Region("some-shallow-commit", shallowSeen)
	keepTable := make([]bool, len(tblSums))
	for i := 0; i < nc; i++ {
		if reach[i] && commits[i].table >= 0 {
			keepTable[commits[i].table] = true
		}
	}
	// "tables referenced only by removed commits" / "blocks referenced only by removed tables"
	mustGoTable := make([]bool, len(tblSums))
	for i := 0; i < nc; i++ {
		if !reach[i] && commits[i].table >= 0 && !keepTable[commits[i].table] {
			mustGoTable[commits[i].table] = true
		}
	}
	before := map[string][]byte{}
	for k, v := range db.M {
		before[k] = v
	}

	err := Prune(db, rs, nil)
	zzverif.Assert("prune-no-error", err == nil)

	check := func(tag string) {
		for i := 0; i < nc; i++ {
			if reach[i] {
				zzverif.Assert(tag+"reachable-commit-kept", objects.CommitExist(db, commits[i].sum))
			} else {
				zzverif.Assert(tag+"unreachable-commit-removed", !objects.CommitExist(db, commits[i].sum))
			}
		}
		for t := range tblSums {
			if keepTable[t] {
				for _, p := range []string{"tbl/", "tblidx/"} {
					v, ok := db.M[p+string(tblSums[t])]
					zzverif.Assert(tag+"reachable-table-and-index-kept-intact", ok && bytes.Equal(v, before[p+string(tblSums[t])]))
				}
				for k, b := range tbls[t].Blocks {
					v, ok := db.M["blk/"+string(b)]
					zzverif.Assert(tag+"reachable-block-kept-intact", ok && bytes.Equal(v, before["blk/"+string(b)]))
					_, ok = db.M["blkidx/"+string(tbls[t].BlockIndices[k])]
					zzverif.Assert(tag+"reachable-block-index-kept", ok)
				}
				_, blk, err := objects.GetBlock(db, nil, tbls[t].Blocks[0])
				_ = blk
				zzverif.Assert(tag+"reachable-table-still-readable", err == nil)
			} else if mustGoTable[t] {
				zzverif.Assert(tag+"table-of-removed-commits-removed", !objects.TableExist(db, tblSums[t]) && !objects.TableIndexExist(db, tblSums[t]))
				for _, b := range tbls[t].Blocks {
					stillUsed := false
					for u := range tblSums {
						if objects.TableExist(db, tblSums[u]) {
							for _, ub := range tbls[u].Blocks {
								if bytes.Equal(ub, b) {
									stillUsed = true
								}
							}
						}
					}
					if !stillUsed {
						zzverif.Assert(tag+"block-of-removed-tables-removed", !objects.BlockExist(db, b))
					}
				}
			}
		}
	}
	check("")
	// prune twice = prune once
	snap := len(db.M)
	err = Prune(db, rs, nil)
	zzverif.Assert("second-prune-no-error", err == nil)
	zzverif.Assert("second-prune-changes-nothing", len(db.M) == snap)
	check("again-")
	zzverif.Reach("end")
}

// Many refs: more ref tips than the commits queue's growth step is clamped at (1024).
// One concrete repository (a single evaluation, like the ladder of C08): n tagged
// root commits sharing one table, one unreachable commit; prune must not crash, must
// keep every tagged commit and remove the unreachable one.
func Harness_C12_many_refs() {
	n := zzverif.Param("n", 1100)
	db := zzrepo.NewObjStore()
	rs := zzrepo.NewRefStore()
	tsum, _ := zzrepo.SaveTable(db, []string{"a", "b"}, []uint32{0}, [][]string{{"1", "x"}}, 255)
	osum, _ := zzrepo.SaveTable(db, []string{"a", "b"}, []uint32{0}, [][]string{{"2", "y"}}, 255)
	var sums [][]byte
	for i := 0; i < n; i++ {
		s, _ := zzrepo.SaveCommit(db, tsum, fmt.Sprintf("c%d", i), int64(1600000000+i))
		rs.Refs[fmt.Sprintf("tags/t%04d", i)] = s
		sums = append(sums, s)
	}
	orphan, _ := zzrepo.SaveCommit(db, osum, "orphan", 1600009999)
	err := Prune(db, rs, nil)
	zzverif.Assert("prune-no-error", err == nil)
	kept := 0
	for _, s := range sums {
		if objects.CommitExist(db, s) {
			kept++
		}
	}
	zzverif.Assert("every-tagged-commit-kept", kept == n)
	zzverif.Assert("shared-table-kept", objects.TableExist(db, tsum))
	zzverif.Assert("unreachable-commit-removed", !objects.CommitExist(db, orphan))
	zzverif.Assert("table-of-removed-commit-removed", !objects.TableExist(db, osum))
	zzverif.Reach("end")
}
