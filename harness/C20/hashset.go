//go:build verif

package index

import (
	"github.com/wrgl/wrgl/pkg/misc"
	"github.com/wrgl/wrgl/pkg/zzverif"
)

// C20: sequences of Add / Flush / Has / close+reopen on the on-disk hash set,
// file = misc.Buffer (the repository's own in-memory ReadWriteSeekCloser).
// Hashes: byte 0 chosen from a small set (then concrete: the fan-out loops iterate
// over it), byte 1 a free solver variable, bytes 2..15 zero. After a final Flush:
// for a fresh symbolic probe p, Has(p) <=> p was added; stored entries ascend;
// fanout[b] = number of stored entries with first byte <= b; same after reopen.

var zzFirsts = []byte{0x00, 0x01, 0xff, 0x7f, 0xfe}

func zzHash(name string, nFirst int) []byte {
	h := make([]byte, 16)
	h[0] = zzFirsts[zzverif.Choose(name+".first", nFirst)]
	// symPos: which byte is the free solver variable (1 = right behind the fan-out byte;
	// 8..15 = in the second half, so that hashes with equal first bytes share their first
	// 8 bytes)
	h[zzverif.Param("symPos", 1)] = zzverif.Byte(name + ".second")
	return h
}

func zzEq16(a, b []byte) bool {
	eq := true
	for i := range a {
		eq = zzverif.And(eq, a[i] == b[i])
	}
	return eq
}

func zzMust(err error) {
	if err != nil {
		panic(err)
	}
}

func zzCheckFile(f *misc.Buffer, s *HashSet, added [][]byte, nFirst int) {
	// membership of everything added
	for _, h := range added {
		ok, err := s.Has(h)
		zzMust(err)
		zzverif.Assert("no-false-negative", ok)
	}
	// fresh probe
	p := zzHash("probe", nFirst)
	in := false
	for _, h := range added {
		in = zzverif.Or(in, zzEq16(h, p))
	}
	ok, err := s.Has(p)
	zzMust(err)
	zzverif.Assert("membership-exact-for-any-probe", ok == in)
	// stored entries ascend; fan-out table consistent with them
	n := s.Len()
	buf := make([]byte, 16)
	var stored [][]byte
	for i := 0; i < n; i++ {
		h, err := readHash(f, buf, 1024, i)
		zzMust(err)
		c := make([]byte, 16)
		copy(c, h)
		if i > 0 {
			zzverif.Assert("stored-entries-sorted", string(stored[i-1]) <= string(c))
		}
		stored = append(stored, c)
	}
	for _, b := range []int{0, 1, 0x7e, 0x7f, 0xfd, 0xfe, 0xff} {
		cnt := 0
		for _, h := range stored {
			if int(h[0]) <= b {
				cnt++
			}
		}
		u, err := readUint32(f, buf, 0, b)
		zzMust(err)
		zzverif.Assert("fanout-consistent-with-entries", int(u) == cnt)
	}
}

func Harness_C20_sequences() {
	nOps := zzverif.Param("ops", 3)
	nFirst := zzverif.Param("firsts", 3)
	batch := uint32(zzverif.Choose("batchSize", zzverif.Param("maxBatch", 3))) + 1
	f := misc.NewBuffer(nil)
	s, err := NewHashSet(f, batch)
	zzMust(err)
	var added [][]byte
	adds := 0
	// bulk: that many concrete hashes are in the set (flushed) before the symbolic
	// operations start - long runs of stored entries that later insertions have to shift
	if bulk := zzverif.Param("bulk", 0); bulk > 0 {
		firsts := []byte{0x10, 0x80, 0xff}
		for k := 0; k < bulk; k++ {
			h := make([]byte, 16)
			h[0] = firsts[k%3]
			h[1] = byte(k / 3)
			h[15] = byte(k)
			added = append(added, h)
			zzMust(s.Add(h))
		}
		zzMust(s.Flush())
		adds += bulk
	}
	for i := 0; i < nOps; i++ {
		switch zzverif.Choose("op", 4) {
		case 0:
			h := zzHash("h", nFirst)
			added = append(added, h)
			zzMust(s.Add(h))
			adds++
		case 1:
			zzMust(s.Flush())
		case 2:
			if len(added) > 0 {
				// a hash that was added and flushed must be found; one still in the batch need not
				zzMust(s.Flush())
				ok, err := s.Has(added[zzverif.Choose("which", len(added))])
				zzMust(err)
				zzverif.Assert("has-after-flush", ok)
			}
		case 3:
			zzMust(s.Flush())
			s, err = NewHashSet(f, batch)
			zzMust(err)
		}
	}
	zzverif.Assume(adds > 0)
	zzMust(s.Flush())
	zzCheckFile(f, s, added, nFirst)
	// same answers after close + reopen
	s2, err := NewHashSet(f, batch)
	zzMust(err)
	zzverif.Assert("reopened-size", s2.Len() == s.Len())
	zzCheckFile(f, s2, added, nFirst)
	zzverif.Reach("end")
}
