//go:build verif

// Package zzingest ingests rows through the repository's real sorter + inserter
// pipeline (for harnesses outside pkg/ingest and pkg/sorter).
package zzingest

import (
	"github.com/go-logr/logr"
	"github.com/wrgl/wrgl/pkg/ingest"
	"github.com/wrgl/wrgl/pkg/objects"
	"github.com/wrgl/wrgl/pkg/sorter"
)

// Ingest returns the sum of the table ingested from rows (any order) with the given
// columns, key, sorter run size and worker count. The data profiler stays off
// (Columns set directly), so no table profile is written.
func Ingest(db objects.Store, cols []string, pk []uint32, rows [][]string, runSize uint64, workers int) ([]byte, error) {
	s, err := sorter.NewSorter(sorter.WithRunSize(runSize))
	if err != nil {
		return nil, err
	}
	s.Columns = cols
	s.PK = pk
	for _, r := range rows {
		if err := s.AddRow(r); err != nil {
			return nil, err
		}
	}
	defer s.Close()
	return ingest.NewInserter(db, s, logr.Discard(), ingest.WithNumWorkers(workers)).IngestTableFromSorter(cols, pk)
}
