//go:build verif

// Package zzrepo holds harness-side helpers shared by several properties: an
// in-memory ref.Store and objects.Store wrapper with atomic calls and a fault
// point, and builders that create tables and commits through the repository's
// own Save* API. It is injected as an overlay (pkg/zzverif/zzrepo).
package zzrepo

import (
	"bytes"
	"fmt"
	"io"
	"sort"
	"strings"
	"sync"
	"time"

	"github.com/google/uuid"
	"github.com/pckhoi/meow"
	"github.com/wrgl/wrgl/pkg/objects"
	"github.com/wrgl/wrgl/pkg/ref"
	"github.com/wrgl/wrgl/pkg/zzverif"
)

// ---- fault point shared by both stores ----

// Crash is the panic value that models process death.
type Crash struct{}

// Fault counts store writes (object store and ref store may share one). When the
// count reaches At:
//
//	Kind 0 ("process death"): that write and every later one has no effect and
//	       returns an error - the persistent state is exactly the prefix of writes a
//	       killed process would have left (operations with worker goroutines cannot be
//	       unwound by a panic, so death is modelled at the storage boundary);
//	Kind 1 ("transient error"): that one write fails, later writes succeed.
type Fault struct {
	At     int // 0 = never
	Kind   int
	Writes int
	Dead   bool
	Log    []string // names of the writes performed
}

var ErrInjected = fmt.Errorf("injected write error")

func (f *Fault) before(name string) error {
	if f == nil {
		return nil
	}
	if f.Dead {
		return ErrInjected
	}
	f.Writes++
	if f.At != 0 && f.Writes == f.At {
		if f.Kind == 0 {
			f.Dead = true
		}
		return ErrInjected
	}
	f.Log = append(f.Log, name)
	return nil
}

// Reopen models restarting the process after a crash.
func (f *Fault) Reopen() { f.Dead, f.At = false, 0 }

// TryCrash runs fn and reports whether it died with a Crash.
func TryCrash(fn func() error) (crashed bool, err error) {
	defer func() {
		if r := recover(); r != nil {
			if _, ok := r.(Crash); ok {
				crashed = true
				return
			}
			panic(r)
		}
	}()
	return false, fn()
}

// ---- objects.Store wrapper ----

type ObjStore struct {
	M map[string][]byte
	F *Fault
}

func NewObjStore() *ObjStore { return &ObjStore{M: map[string][]byte{}} }

func (s *ObjStore) Get(k []byte) ([]byte, error) {
	if v, ok := s.M[string(k)]; ok {
		return v, nil
	}
	return nil, objects.ErrKeyNotFound
}
func (s *ObjStore) Set(k, v []byte) error {
	if err := s.F.before("obj.Set " + keyName(k)); err != nil {
		return err
	}
	c := make([]byte, len(v))
	copy(c, v)
	s.M[string(k)] = c
	return nil
}
func (s *ObjStore) Delete(k []byte) error {
	if err := s.F.before("obj.Delete " + keyName(k)); err != nil {
		return err
	}
	delete(s.M, string(k))
	return nil
}
func (s *ObjStore) Exist(k []byte) bool { _, ok := s.M[string(k)]; return ok }
func (s *ObjStore) sortedKeys(prefix []byte) []string {
	var ks []string
	for k := range s.M {
		if strings.HasPrefix(k, string(prefix)) {
			ks = append(ks, k)
		}
	}
	sort.Strings(ks)
	return ks
}
func (s *ObjStore) Filter(prefix []byte) (map[string][]byte, error) {
	m := map[string][]byte{}
	for _, k := range s.sortedKeys(prefix) {
		m[k] = s.M[k]
	}
	return m, nil
}
func (s *ObjStore) FilterKey(prefix []byte) ([][]byte, error) {
	keys := [][]byte{}
	for _, k := range s.sortedKeys(prefix) {
		keys = append(keys, []byte(k))
	}
	return keys, nil
}
func (s *ObjStore) Clear(prefix []byte) error {
	for _, k := range s.sortedKeys(prefix) {
		if err := s.F.before("obj.Clear " + keyName([]byte(k))); err != nil {
			return err
		}
		delete(s.M, k)
	}
	return nil
}
func (s *ObjStore) Close() error { return nil }

func keyName(k []byte) string {
	i := bytes.IndexByte(k, '/')
	if i < 0 {
		return "?"
	}
	return string(k[:i])
}

// CopyPrefix copies every key with the given prefix (and optional exact sum) from src to dst.
func CopyKey(dst, src *ObjStore, key string) {
	if v, ok := src.M[key]; ok {
		dst.M[key] = v
	}
}

// ---- ref.Store ----

type RefStore struct {
	Refs map[string][]byte
	Logs map[string][]*ref.Reflog
	Txs  map[uuid.UUID]*ref.Transaction
	F    *Fault
}

func NewRefStore() *RefStore {
	return &RefStore{Refs: map[string][]byte{}, Logs: map[string][]*ref.Reflog{}, Txs: map[uuid.UUID]*ref.Transaction{}}
}

func (s *RefStore) SetWithLog(key string, val []byte, log *ref.Reflog) error {
	if err := s.F.before("ref.SetWithLog " + key); err != nil {
		return err
	}
	s.Refs[key] = val
	s.Logs[key] = append(s.Logs[key], log)
	return nil
}
func (s *RefStore) Set(key string, val []byte) error {
	if err := s.F.before("ref.Set " + key); err != nil {
		return err
	}
	s.Refs[key] = val
	return nil
}
func (s *RefStore) Get(key string) ([]byte, error) {
	if v, ok := s.Refs[key]; ok {
		return v, nil
	}
	return nil, ref.ErrKeyNotFound
}
func (s *RefStore) Delete(key string) error {
	if err := s.F.before("ref.Delete " + key); err != nil {
		return err
	}
	delete(s.Refs, key)
	delete(s.Logs, key)
	return nil
}
func (s *RefStore) keys(prefixes, notPrefixes []string) []string {
	var ks []string
	for k := range s.Refs {
		ok := len(prefixes) == 0
		for _, p := range prefixes {
			if strings.HasPrefix(k, p) {
				ok = true
			}
		}
		for _, p := range notPrefixes {
			if strings.HasPrefix(k, p) {
				ok = false
			}
		}
		if ok {
			ks = append(ks, k)
		}
	}
	sort.Strings(ks)
	return ks
}
func (s *RefStore) Filter(prefixes, notPrefixes []string) (map[string][]byte, error) {
	m := map[string][]byte{}
	for _, k := range s.keys(prefixes, notPrefixes) {
		m[k] = s.Refs[k]
	}
	return m, nil
}
func (s *RefStore) FilterKey(prefixes, notPrefixes []string) ([]string, error) {
	return s.keys(prefixes, notPrefixes), nil
}
func (s *RefStore) Rename(o, n string) error {
	if err := s.F.before("ref.Rename " + o); err != nil {
		return err
	}
	v, ok := s.Refs[o]
	if !ok {
		return ref.ErrKeyNotFound
	}
	s.Refs[n] = v
	s.Logs[n] = s.Logs[o]
	delete(s.Refs, o)
	delete(s.Logs, o)
	return nil
}
func (s *RefStore) Copy(a, b string) error {
	if err := s.F.before("ref.Copy " + a); err != nil {
		return err
	}
	v, ok := s.Refs[a]
	if !ok {
		return ref.ErrKeyNotFound
	}
	s.Refs[b] = v
	s.Logs[b] = append([]*ref.Reflog{}, s.Logs[a]...)
	return nil
}

type logReader struct {
	logs []*ref.Reflog
	i    int
}

func (r *logReader) Read() (*ref.Reflog, error) {
	if r.i < 0 {
		return nil, io.EOF
	}
	l := r.logs[r.i]
	r.i--
	return l, nil
}
func (r *logReader) Close() error { return nil }

// LogReader reads a ref's log newest first, like the real stores.
func (s *RefStore) LogReader(k string) (ref.ReflogReader, error) {
	logs, ok := s.Logs[k]
	if !ok {
		return nil, ref.ErrKeyNotFound
	}
	return &logReader{logs: logs, i: len(logs) - 1}, nil
}
func (s *RefStore) NewTransaction(tx *ref.Transaction) (*uuid.UUID, error) {
	if err := s.F.before("ref.NewTransaction"); err != nil {
		return nil, err
	}
	c := *tx
	s.Txs[tx.ID] = &c
	return &c.ID, nil
}
func (s *RefStore) GetTransaction(id uuid.UUID) (*ref.Transaction, error) {
	if tx, ok := s.Txs[id]; ok {
		c := *tx
		return &c, nil
	}
	return nil, fmt.Errorf("transaction not found")
}
func (s *RefStore) UpdateTransaction(tx *ref.Transaction) error {
	if err := s.F.before("ref.UpdateTransaction"); err != nil {
		return err
	}
	c := *tx
	s.Txs[tx.ID] = &c
	return nil
}

// DeleteTransaction mirrors the SQL store: a committed transaction cannot be discarded.
func (s *RefStore) DeleteTransaction(id uuid.UUID) error {
	tx, ok := s.Txs[id]
	if !ok {
		return fmt.Errorf("transaction not found")
	}
	if tx.Status == ref.TSCommitted {
		return fmt.Errorf("cannot discard committed transaction")
	}
	if err := s.F.before("ref.DeleteTransaction"); err != nil {
		return err
	}
	delete(s.Txs, id)
	return nil
}
func (s *RefStore) GCTransactions(d time.Duration) ([]uuid.UUID, error) { return nil, nil }
func (s *RefStore) GetTransactionLogs(id uuid.UUID) (map[string]*ref.Reflog, error) {
	m := map[string]*ref.Reflog{}
	for k, logs := range s.Logs {
		for _, l := range logs {
			if l.Txid != nil && *l.Txid == id {
				m[k] = l
			}
		}
	}
	return m, nil
}
func (s *RefStore) ListTransactions(o, l int) ([]*ref.Transaction, error) { return nil, nil }

// ---- builders over the real Save* API ----

// SaveTable stores a table whose rows are given already sorted by key, split into
// blocks of blockSize rows (255 in the real system; harnesses may use less to
// keep multi-block tables small where the code under test does not depend on it).
func SaveTable(db objects.Store, cols []string, pk []uint32, rows [][]string, blockSize int) (sum []byte, tbl *objects.Table) {
	enc := objects.NewStrListEncoder(true)
	hash := meow.New(0)
	tbl = &objects.Table{Columns: cols, PK: pk, RowsCount: uint32(len(rows))}
	var tblIdx [][]string
	for off := 0; off < len(rows); off += blockSize {
		end := off + blockSize
		if end > len(rows) {
			end = len(rows)
		}
		blk := rows[off:end]
		buf := bytes.NewBuffer(nil)
		must(objects.WriteBlockTo(enc, buf, blk))
		bsum, _, err := objects.SaveBlock(db, nil, buf.Bytes())
		mustErr(err)
		idx, err := objects.IndexBlock(enc, hash, blk, pk)
		mustErr(err)
		ibuf := bytes.NewBuffer(nil)
		must(idx.WriteTo(ibuf))
		isum, _, err := objects.SaveBlockIndex(db, nil, ibuf.Bytes())
		mustErr(err)
		tbl.Blocks = append(tbl.Blocks, bsum)
		tbl.BlockIndices = append(tbl.BlockIndices, isum)
		var first []string
		if len(pk) > 0 {
			for _, u := range pk {
				first = append(first, blk[0][u])
			}
		} else {
			first = append(first, blk[0]...)
		}
		tblIdx = append(tblIdx, first)
	}
	tbuf := bytes.NewBuffer(nil)
	must(tbl.WriteTo(tbuf))
	sum, err := objects.SaveTable(db, tbuf.Bytes())
	mustErr(err)
	tbl.Sum = sum
	ibuf := bytes.NewBuffer(nil)
	must(objects.WriteBlockTo(enc, ibuf, tblIdx))
	mustErr(objects.SaveTableIndex(db, sum, ibuf.Bytes()))
	return sum, tbl
}

func SaveCommit(db objects.Store, table []byte, msg string, unix int64, parents ...[]byte) ([]byte, *objects.Commit) {
	c := &objects.Commit{Table: table, AuthorName: "a", AuthorEmail: "e", Message: msg, Time: time.Unix(unix, 0).UTC(), Parents: parents}
	buf := bytes.NewBuffer(nil)
	must(c.WriteTo(buf))
	sum, err := objects.SaveCommit(db, buf.Bytes())
	mustErr(err)
	c.Sum = sum
	return sum, c
}

func must(_ int64, err error) { mustErr(err) }
func mustErr(err error) {
	if err != nil {
		panic("zzrepo: " + err.Error())
	}
}

// ---- AssocStore: an objects.Store whose keys may contain symbolic bytes ----
//
// Keys are compared with bytes.Equal (a symbolic comparison under gosym, which
// forks where the outcome is not determined), never hashed. Listing is sorted by
// key, like badger.

type assocEntry struct {
	k, v []byte
}

type AssocStore struct {
	E []assocEntry
	F *Fault
}

func NewAssocStore() *AssocStore { return &AssocStore{} }

func (s *AssocStore) find(k []byte) int {
	for i := range s.E {
		if len(s.E[i].k) == len(k) && bytes.Equal(s.E[i].k, k) {
			return i
		}
	}
	return -1
}
func (s *AssocStore) Get(k []byte) ([]byte, error) {
	if i := s.find(k); i >= 0 {
		return s.E[i].v, nil
	}
	return nil, objects.ErrKeyNotFound
}
func (s *AssocStore) Set(k, v []byte) error {
	if err := s.F.before("obj.Set " + keyName(k)); err != nil {
		return err
	}
	kc := append([]byte{}, k...)
	vc := append([]byte{}, v...)
	if i := s.find(k); i >= 0 {
		s.E[i].v = vc
		return nil
	}
	s.E = append(s.E, assocEntry{kc, vc})
	return nil
}
func (s *AssocStore) Delete(k []byte) error {
	if err := s.F.before("obj.Delete " + keyName(k)); err != nil {
		return err
	}
	if i := s.find(k); i >= 0 {
		s.E = append(s.E[:i], s.E[i+1:]...)
	}
	return nil
}
func (s *AssocStore) Exist(k []byte) bool { return s.find(k) >= 0 }
func (s *AssocStore) sorted(prefix []byte) []assocEntry {
	var r []assocEntry
	for _, e := range s.E {
		if bytes.HasPrefix(e.k, prefix) {
			r = append(r, e)
		}
	}
	sort.Slice(r, func(i, j int) bool { return bytes.Compare(r[i].k, r[j].k) < 0 })
	return r
}
func (s *AssocStore) Filter(prefix []byte) (map[string][]byte, error) {
	return nil, fmt.Errorf("AssocStore.Filter: not supported")
}
func (s *AssocStore) FilterKey(prefix []byte) ([][]byte, error) {
	keys := [][]byte{}
	for _, e := range s.sorted(prefix) {
		keys = append(keys, e.k)
	}
	return keys, nil
}
func (s *AssocStore) Clear(prefix []byte) error {
	var r []assocEntry
	for _, e := range s.E {
		if !bytes.HasPrefix(e.k, prefix) {
			r = append(r, e)
		}
	}
	s.E = r
	return nil
}
func (s *AssocStore) Close() error { return nil }
func (s *AssocStore) Len() int     { return len(s.E) }

// ---- LockedStore: an objects.Store safe for concurrent use (C16) ----

type LockedStore struct {
	mu sync.Mutex
	S  *ObjStore
}

func NewLockedStore() *LockedStore { return &LockedStore{S: NewObjStore()} }

func (s *LockedStore) Get(k []byte) ([]byte, error) {
	s.mu.Lock()
	defer s.mu.Unlock()
	return s.S.Get(k)
}
func (s *LockedStore) Set(k, v []byte) error {
	s.mu.Lock()
	defer s.mu.Unlock()
	return s.S.Set(k, v)
}
func (s *LockedStore) Delete(k []byte) error {
	s.mu.Lock()
	defer s.mu.Unlock()
	return s.S.Delete(k)
}
func (s *LockedStore) Exist(k []byte) bool {
	s.mu.Lock()
	defer s.mu.Unlock()
	return s.S.Exist(k)
}
func (s *LockedStore) Filter(p []byte) (map[string][]byte, error) {
	s.mu.Lock()
	defer s.mu.Unlock()
	return s.S.Filter(p)
}
func (s *LockedStore) FilterKey(p []byte) ([][]byte, error) {
	s.mu.Lock()
	defer s.mu.Unlock()
	return s.S.FilterKey(p)
}
func (s *LockedStore) Clear(p []byte) error {
	s.mu.Lock()
	defer s.mu.Unlock()
	return s.S.Clear(p)
}
func (s *LockedStore) Close() error { return nil }

// CheckStructure asserts the structural invariants of C03 on a stored table: row
// count, block fill, strictly increasing keys, table index = first key per block,
// every block index maps hash(key) -> (hash(row), position) and nothing else, and
// the index built from the rows equals the stored one.
func CheckStructure(db objects.Store, sum []byte) {
	tbl, err := objects.GetTable(db, sum)
	zzverif.Assert("table-readable", err == nil)
	if err != nil {
		return
	}
	pk := tbl.PK
	kc := make([]int, 0, len(tbl.Columns))
	if len(pk) > 0 {
		for _, u := range pk {
			kc = append(kc, int(u))
		}
	} else {
		for i := range tbl.Columns {
			kc = append(kc, i)
		}
	}
	var blocks [][][]string
	var bb []byte
	for _, bsum := range tbl.Blocks {
		var blk [][]string
		blk, bb, err = objects.GetBlock(db, bb, bsum)
		zzverif.Assert("block-readable", err == nil)
		if err != nil {
			return
		}
		blocks = append(blocks, blk)
	}
	total := 0
	var all [][]string
	for i, blk := range blocks {
		total += len(blk)
		if i < len(blocks)-1 {
			zzverif.Assert("every-block-but-the-last-has-255-rows", len(blk) == 255)
		} else {
			zzverif.Assert("last-block-has-1-to-255-rows", len(blk) >= 1 && len(blk) <= 255)
		}
		for _, row := range blk {
			zzverif.Assert("every-row-has-one-cell-per-column", len(row) == len(tbl.Columns))
		}
		all = append(all, blk...)
	}
	zzverif.Assert("recorded-row-count-equals-rows-present", int(tbl.RowsCount) == total)
	zzverif.Assert("block-index-per-block", len(tbl.BlockIndices) == len(tbl.Blocks))
	less := func(a, b []string) bool {
		for _, k := range kc {
			if k >= len(a) || k >= len(b) {
				return false
			}
			if a[k] != b[k] {
				return a[k] < b[k]
			}
		}
		return false
	}
	for j := 1; j < len(all); j++ {
		if j < 4 || j > len(all)-4 || (j >= 253 && j <= 258) {
			zzverif.Assert("keys-strictly-increase-across-table", less(all[j-1], all[j]))
		}
	}
	tidx, err := objects.GetTableIndex(db, sum)
	zzverif.Assert("table-index-readable", err == nil && len(tidx) == len(blocks))
	if err == nil && len(tidx) == len(blocks) {
		for i, blk := range blocks {
			ok := len(tidx[i]) == len(kc) && len(blk) > 0
			if ok {
				for x, k := range kc {
					ok = ok && k < len(blk[0]) && tidx[i][x] == blk[0][k]
				}
			}
			zzverif.Assert("table-index-lists-first-key-of-each-block", ok)
		}
	}
	enc := objects.NewStrListEncoder(false)
	for i, blk := range blocks {
		if i >= len(tbl.BlockIndices) {
			continue
		}
		idx, _, err := objects.GetBlockIndex(db, nil, tbl.BlockIndices[i])
		zzverif.Assert("block-index-readable", err == nil)
		if err != nil {
			continue
		}
		zzverif.Assert("block-index-has-one-entry-per-row", idx.Len() == len(blk))
		for p, row := range blk {
			if len(blk) > 6 && p != 0 && p != len(blk)-1 {
				continue // large blocks: first and last row only
			}
			rowSum := meow.Checksum(0, enc.Encode(row))
			keySum := rowSum
			if len(pk) > 0 {
				kcells := make([]string, len(pk))
				for x, u := range pk {
					if int(u) < len(row) {
						kcells[x] = row[u]
					}
				}
				keySum = meow.Checksum(0, enc.Encode(kcells))
			}
			off, rs := idx.Get(keySum[:])
			zzverif.Assert("block-index-finds-every-key", rs != nil)
			if rs != nil {
				zzverif.Assert("block-index-maps-key-to-row-hash-and-position", bytes.Equal(rs, rowSum[:]) && int(off) == p)
			}
		}
		if len(blk) > 6 {
			continue
		}
		idx2, err := objects.IndexBlock(objects.NewStrListEncoder(true), meow.New(0), blk, pk)
		zzverif.Assert("index-from-rows-builds", err == nil)
		if err == nil {
			b1, b2 := bytes.NewBuffer(nil), bytes.NewBuffer(nil)
			idx.WriteTo(b1)
			idx2.WriteTo(b2)
			zzverif.Assert("index-from-bytes-equals-index-from-rows", bytes.Equal(b1.Bytes(), b2.Bytes()))
		}
	}
}
