//go:build verif

package ingest

import (
	"bytes"

	"github.com/go-logr/logr"
	"github.com/pckhoi/meow"
	"github.com/wrgl/wrgl/pkg/objects"
	"github.com/wrgl/wrgl/pkg/sorter"
	"github.com/wrgl/wrgl/pkg/zzverif"
	"github.com/wrgl/wrgl/pkg/zzverif/zzrepo"
)

// Kernel K3 of C01 (also used by C02 and C03): the real sorter -> inserter
// worker pool -> SaveBlock / IndexBlockFromBytes / SaveBlockIndex / sortBlocks /
// SaveTable / SaveTableIndex pipeline, with symbolic cells, a symbolic sorter run
// size and a worker-count parameter, into a harness store whose keys may be
// symbolic (block / table ids are the injective hash UF over symbolic content).

var zzPKs = [][]uint32{nil, {0}, {1}, {0, 1}, {1, 0}, {2, 0, 1}, {1, 2, 0}}

func zzCells(name string, nrows, ncols, cellLen int) [][]string {
	in := make([][]string, nrows)
	for i := range in {
		in[i] = make([]string, ncols)
		for j := range in[i] {
			l := cellLen
			if zzverif.Param("emptyCells", 0) == 1 && zzverif.Bool("emptyCell") {
				l = 0 // any cell may be empty (the explorer decides which)
			}
			if zzverif.Param("bigRow", 0) == i+1 && j == ncols-1 {
				// one row outweighs the others together: a run size exists at which this row
				// alone is spilled and the remaining rows stay in memory as an unsorted tail
				l = 12
			}
			in[i][j] = zzverif.String(name, l)
		}
	}
	return in
}

func zzIngest(db objects.Store, in [][]string, ncols int, pk []uint32, runSize uint64, workers int) ([]byte, error) {
	return zzIngestCols(db, in, []string{"a", "b", "c"}[:ncols], pk, runSize, workers)
}

func zzIngestCols(db objects.Store, in [][]string, cols []string, pk []uint32, runSize uint64, workers int) ([]byte, error) {
	s, err := sorter.NewSorter(sorter.WithRunSize(runSize))
	if err != nil {
		panic(err)
	}
	s.Columns = cols // not SetColumns: the data profiler (float statistics) is outside the claim
	s.PK = pk
	for _, r := range in {
		if err := s.AddRow(r); err != nil {
			panic(err)
		}
	}
	sum, err := NewInserter(db, s, logr.Discard(), WithNumWorkers(workers)).IngestTableFromSorter(cols, pk)
	s.Close()
	return sum, err
}

func zzKeyCols(ncols int, pk []uint32) []int {
	if len(pk) == 0 {
		all := make([]int, ncols)
		for i := range all {
			all[i] = i
		}
		return all
	}
	r := make([]int, len(pk))
	for i, u := range pk {
		r[i] = int(u)
	}
	return r
}

func zzKeyEq(kc []int, a, b []string) bool {
	eq := true
	for _, k := range kc {
		eq = zzverif.And(eq, a[k] == b[k])
	}
	return eq
}

func zzKeyLess(kc []int, a, b []string) bool {
	less := false
	for x := len(kc) - 1; x >= 0; x-- {
		k := kc[x]
		less = zzverif.Or(a[k] < b[k], zzverif.And(a[k] == b[k], less))
	}
	return less
}

func zzRowEq(a, b []string) bool {
	if len(a) != len(b) {
		return false
	}
	eq := true
	for i := range a {
		eq = zzverif.And(eq, a[i] == b[i])
	}
	return eq
}

// zzReadBack reads the stored table: all rows in block order, plus per-block rows.
func zzReadBack(db objects.Store, sum []byte) (*objects.Table, [][][]string) {
	tbl, err := objects.GetTable(db, sum)
	zzverif.Assert("table-readable", err == nil)
	if err != nil {
		return nil, nil
	}
	var blocks [][][]string
	for _, b := range tbl.Blocks {
		blk, _, err := objects.GetBlock(db, nil, b)
		zzverif.Assert("block-readable", err == nil)
		if err != nil {
			return nil, nil
		}
		blocks = append(blocks, blk)
	}
	return tbl, blocks
}

// zzCheckRows: C01's statement on the rows read back.
func zzCheckRows(in [][]string, out [][]string, kc []int) {
	for j := 1; j < len(out); j++ {
		zzverif.Assert("rows-strictly-ascending-by-key", zzKeyLess(kc, out[j-1], out[j]))
	}
	for i := range in {
		cnt := 0
		for j := range out {
			cnt += zzverif.B2I(zzKeyEq(kc, in[i], out[j]))
		}
		zzverif.Assert("one-row-per-distinct-key", cnt == 1)
	}
	for j := range out {
		found := false
		for i := range in {
			found = zzverif.Or(found, zzRowEq(in[i], out[j]))
		}
		zzverif.Assert("every-stored-row-is-an-input-row-cell-for-cell", found)
	}
}

// zzCheckStructure: C03's statement on a stored table.
func zzCheckStructure(db objects.Store, sum []byte, tbl *objects.Table, blocks [][][]string, ncols int, pk []uint32) {
	kc := zzKeyCols(ncols, pk)
	total := 0
	var all [][]string
	for i, blk := range blocks {
		total += len(blk)
		if i < len(blocks)-1 {
			zzverif.Assert("every-block-but-the-last-has-255-rows", len(blk) == 255)
		} else {
			zzverif.Assert("last-block-has-1-to-255-rows", len(blk) >= 1 && len(blk) <= 255)
		}
		all = append(all, blk...)
	}
	zzverif.Assert("recorded-row-count-equals-rows-present", int(tbl.RowsCount) == total)
	zzverif.Assert("block-index-per-block", len(tbl.BlockIndices) == len(tbl.Blocks))
	for j := 1; j < len(all); j++ {
		if j < 3 || j > len(all)-4 || (j >= 253 && j <= 258) {
			zzverif.Assert("keys-strictly-increase-across-table", zzKeyLess(kc, all[j-1], all[j]))
		}
	}
	// table index: first key of every block
	tidx, err := objects.GetTableIndex(db, sum)
	zzverif.Assert("table-index-readable", err == nil && len(tidx) == len(blocks))
	if err == nil && len(tidx) == len(blocks) {
		for i, blk := range blocks {
			ok := len(tidx[i]) == len(kc)
			if ok {
				for x, k := range kc {
					ok = zzverif.And(ok, tidx[i][x] == blk[0][k])
				}
			}
			zzverif.Assert("table-index-lists-first-key-of-each-block", ok)
		}
	}
	// block indices: hash(key) -> (hash(row), position) for every row and nothing else;
	// index from bytes and index from rows coincide
	enc := objects.NewStrListEncoder(false)
	for i, blk := range blocks {
		if len(blk) > 4 {
			continue // large filler blocks: checked through the sum comparison below only
		}
		idx, _, err := objects.GetBlockIndex(db, nil, tbl.BlockIndices[i])
		zzverif.Assert("block-index-readable", err == nil)
		if err != nil {
			continue
		}
		zzverif.Assert("block-index-has-one-entry-per-row", idx.Len() == len(blk))
		for p, row := range blk {
			rowSum := meow.Checksum(0, enc.Encode(row))
			var keySum [16]byte
			if len(pk) > 0 {
				kcells := make([]string, len(pk))
				for x, u := range pk {
					kcells[x] = row[u]
				}
				keySum = meow.Checksum(0, enc.Encode(kcells))
			} else {
				keySum = rowSum
			}
			off, rs := idx.Get(keySum[:])
			zzverif.Assert("block-index-finds-every-key", rs != nil)
			if rs != nil {
				zzverif.Assert("block-index-maps-key-to-row-hash-and-position", bytes.Equal(rs, rowSum[:]) && int(off) == p)
			}
		}
		idx2, err := objects.IndexBlock(objects.NewStrListEncoder(true), meow.New(0), blk, pk)
		zzverif.Assert("index-from-rows-builds", err == nil)
		if err == nil {
			b1, b2 := bytes.NewBuffer(nil), bytes.NewBuffer(nil)
			idx.WriteTo(b1)
			idx2.WriteTo(b2)
			zzverif.Assert("index-from-bytes-equals-index-from-rows", bytes.Equal(b1.Bytes(), b2.Bytes()))
		}
	}
}

func Harness_ingest_roundtrip() {
	nrows, ncols := zzverif.Param("rows", 2), zzverif.Param("cols", 2)
	pk := zzPKs[zzverif.Param("pk", 1)]
	in := zzCells("cell", nrows, ncols, zzverif.Param("cellLen", 1))
	kc := zzKeyCols(ncols, pk)
	emptyKey := false
	for i := range in {
		e := true
		for _, k := range kc {
			e = zzverif.And(e, in[i][k] == "")
		}
		emptyKey = zzverif.Or(emptyKey, e)
	}
	zzverif.Region("row-with-empty-key", emptyKey)
	runSize := zzverif.Uint64("runSize")
	zzverif.Assume(runSize >= 1)
	db := zzrepo.NewAssocStore()
	sum, err := zzIngest(db, in, ncols, pk, runSize, zzverif.Param("workers", 1))
	zzverif.Assert("ingest-no-error", err == nil)
	if err != nil {
		return
	}
	tbl, blocks := zzReadBack(db, sum)
	if tbl == nil {
		return
	}
	zzverif.Assert("columns-preserved", len(tbl.Columns) == ncols && len(tbl.PK) == len(pk))
	var out [][]string
	for _, b := range blocks {
		out = append(out, b...)
	}
	zzCheckRows(in, out, kc)
	zzCheckStructure(db, sum, tbl, blocks, ncols, pk)
	zzverif.Reach("end")
}

// Block boundary: 254 concrete filler rows plus `extra` symbolic rows whose keys
// are assumed inside a window around row 255 (BlockSize is the literal 255).
func Harness_ingest_boundary() {
	extra := zzverif.Param("extra", 2)
	fill := zzverif.Param("fill", 254)
	var in [][]string
	for i := 0; i < fill; i++ {
		in = append(in, []string{string([]byte{'k', byte(i + 1)}), "f"})
	}
	// keys of the extra rows range over the whole window 250..255 around the block
	// boundary (equal to the last key of block 0, past it, duplicates of each other,
	// duplicates of fillers): chosen exhaustively; their values are symbolic.
	var sym [][]string
	for i := 0; i < extra; i++ {
		k := byte(250 + zzverif.Choose("key", 6))
		row := []string{string([]byte{'k', k}), zzverif.String("val", 1)}
		sym = append(sym, row)
	}
	// symbolic rows arrive first, in the middle and last
	all := append(append([][]string{}, sym[:1]...), in...)
	all = append(all, sym[1:]...)
	runSize := zzverif.Uint64("runSize")
	zzverif.Assume(runSize >= 1)
	zzverif.Assume(runSize == 1<<40 || runSize == 700 || runSize < 16)
	db := zzrepo.NewAssocStore()
	pk := []uint32{0}
	sum, err := zzIngest(db, all, 2, pk, runSize, zzverif.Param("workers", 1))
	zzverif.Assert("ingest-no-error", err == nil)
	if err != nil {
		return
	}
	tbl, blocks := zzReadBack(db, sum)
	if tbl == nil {
		return
	}
	var out [][]string
	for _, b := range blocks {
		out = append(out, b...)
	}
	kc := []int{0}
	// no symbolic row lost or duplicated across the boundary
	for _, r := range sym {
		cnt := 0
		for j := range out {
			if j >= fill-6 {
				cnt += zzverif.B2I(zzKeyEq(kc, r, out[j]))
			}
		}
		zzverif.Assert("boundary-key-present-exactly-once", cnt == 1)
	}
	distinct := fill
	_ = distinct
	zzCheckStructure(db, sum, tbl, blocks, 2, pk)
	zzverif.Observe("blocks", len(blocks))
	zzverif.Reach("end")
}

// C02: the same logical table ingested two ways gets the same identifier; tables
// that differ in one cell / a column name / the key choice get different ones.
func Harness_ingest_identity() {
	nrows := zzverif.Param("rows", 2)
	ncols := 2
	pk := zzPKs[zzverif.Param("pk", 1)]
	in := zzCells("cell", nrows, ncols, 1)
	kc := zzKeyCols(ncols, pk)
	for i := range in {
		for j := 0; j < i; j++ {
			zzverif.Assume(!zzKeyEq(kc, in[i], in[j])) // keys unique
		}
	}
	// second arrival order: a rotation / swap chosen by the explorer
	perm := make([][]string, nrows)
	ord := 2
	if zzverif.Param("part", 0) != 3 {
		ord = zzverif.Choose("order", 3)
	}
	switch ord {
	case 0:
		for i := range in {
			perm[i] = in[nrows-1-i]
		}
	case 1:
		for i := range in {
			perm[i] = in[(i+1)%nrows]
		}
	case 2:
		copy(perm, in)
	}
	r1, r2 := zzverif.Uint64("runSize1"), zzverif.Uint64("runSize2")
	zzverif.Assume(r1 >= 1 && r2 >= 1)
	// part 0 = both halves in one run; 1 = only "same table, same identifier";
	// 2 = only "one cell changed, different identifier" (the product of three
	// symbolic ingests is split for the larger row counts)
	part := zzverif.Param("part", 0)
	db1, db2 := zzrepo.NewAssocStore(), zzrepo.NewAssocStore()
	s1, err1 := zzIngest(db1, in, ncols, pk, r1, zzverif.Param("workers1", 1))
	zzverif.Assert("ingest-no-error", err1 == nil)
	if err1 != nil {
		return
	}
	if part != 2 {
		s2, err2 := zzIngest(db2, perm, ncols, pk, r2, zzverif.Param("workers2", 1))
		zzverif.Assert("ingest-no-error", err2 == nil)
		if err2 != nil {
			return
		}
		zzverif.Assert("same-logical-table-same-identifier", bytes.Equal(s1, s2))
		t1, _ := db1.Get(append([]byte("tbl/"), s1...))
		t2, _ := db2.Get(append([]byte("tbl/"), s2...))
		zzverif.Assert("same-logical-table-same-bytes", bytes.Equal(t1, t2))
	}
	if part == 1 {
		zzverif.Reach("end")
		return
	}
	if part == 3 {
		zzIdentityHeaderVariants(in, ncols, pk, s1, r2)
		zzverif.Reach("end")
		return
	}
	// one cell changed => different identifier
	mod := make([][]string, nrows)
	for i := range in {
		mod[i] = append([]string{}, in[i]...)
	}
	ri, ci := zzverif.Choose("modRow", nrows), zzverif.Choose("modCol", ncols)
	nv := zzverif.String("newCell", 1)
	zzverif.Assume(nv != in[ri][ci])
	mod[ri][ci] = nv
	for i := range mod {
		for j := 0; j < i; j++ {
			zzverif.Assume(!zzKeyEq(kc, mod[i], mod[j]))
		}
	}
	db3 := zzrepo.NewAssocStore()
	s3, err3 := zzIngest(db3, mod, ncols, pk, r1, 1)
	zzverif.Assert("ingest-no-error", err3 == nil)
	if err3 == nil {
		zzverif.Assert("different-cell-different-identifier", !bytes.Equal(s1, s3))
	}
	zzverif.Reach("end")
}

// part 3 of C02's identity obligation: the same rows under a different header -
// one column renamed (a handful of concrete other names), the two columns listed in the other
// order (cells moved along, so the logical mapping name -> value is unchanged), or a
// different primary key - must get a different identifier.
func zzIdentityHeaderVariants(in [][]string, ncols int, pk []uint32, s1 []byte, r2 uint64) {
	cols := []string{"a", "b", "c"}[:ncols]
	switch zzverif.Choose("headerVariant", 3) {
	case 0: // one column renamed
		j := zzverif.Choose("renamedCol", ncols)
		// concrete alternatives (the ingest code puts column names into a Go map):
		// another letter, the other case, a longer name, a name with a trailing blank
		alts := []string{"z", "A", "B", cols[j] + cols[j], cols[j] + " ", " " + cols[j]}
		nn := alts[zzverif.Choose("newName", len(alts))]
		cols2 := append([]string{}, cols...)
		for _, c := range cols {
			if nn == c {
				return
			}
		}
		cols2[j] = nn
		s, err := zzIngestCols(zzrepo.NewAssocStore(), in, cols2, pk, r2, 1)
		zzverif.Assert("ingest-no-error", err == nil)
		if err == nil {
			zzverif.Assert("different-column-name-different-identifier", !bytes.Equal(s1, s))
		}
	case 1: // columns 0 and 1 listed in the other order, cells and key moved along
		cols2 := append([]string{}, cols...)
		cols2[0], cols2[1] = cols2[1], cols2[0]
		sw := make([][]string, len(in))
		for i := range in {
			sw[i] = append([]string{}, in[i]...)
			sw[i][0], sw[i][1] = sw[i][1], sw[i][0]
		}
		pk2 := make([]uint32, len(pk))
		for i, u := range pk {
			switch u {
			case 0:
				pk2[i] = 1
			case 1:
				pk2[i] = 0
			default:
				pk2[i] = u
			}
		}
		s, err := zzIngestCols(zzrepo.NewAssocStore(), sw, cols2, pk2, r2, 1)
		zzverif.Assert("ingest-no-error", err == nil)
		if err == nil {
			zzverif.Assert("different-column-order-different-identifier", !bytes.Equal(s1, s))
		}
	case 2: // another primary key under which the keys are unique too
		x := zzverif.Choose("otherPK", len(zzPKs))
		pk2 := zzPKs[x]
		same := len(pk2) == len(pk)
		for i := 0; same && i < len(pk); i++ {
			same = pk2[i] == pk[i]
		}
		for _, u := range pk2 {
			if int(u) >= ncols {
				same = true // not a key of this table
			}
		}
		if same {
			return
		}
		kc2 := zzKeyCols(ncols, pk2)
		for i := range in {
			for j := 0; j < i; j++ {
				zzverif.Assume(!zzKeyEq(kc2, in[i], in[j]))
			}
		}
		s, err := zzIngestCols(zzrepo.NewAssocStore(), in, cols, pk2, r2, 1)
		zzverif.Assert("ingest-no-error", err == nil)
		if err == nil {
			zzverif.Assert("different-primary-key-different-identifier", !bytes.Equal(s1, s))
		}
	}
}
