//go:build verif

package transaction

import (
	"bytes"
	"time"

	"github.com/google/uuid"
	"github.com/wrgl/wrgl/pkg/objects"
	"github.com/wrgl/wrgl/pkg/ref"
	"github.com/wrgl/wrgl/pkg/zzverif"
	"github.com/wrgl/wrgl/pkg/zzverif/zzrepo"
)

// C14: transaction.Commit / Discard over in-memory stores whose every call is
// atomic. The fault is ONE solver variable: the index k of the store write that
// fails, with the fault kind (process death / returned error) a second one. The
// order in which Commit visits the staged branches (a Go map iteration) is a
// choice point of the engine.

type zzTx struct {
	db     *zzrepo.ObjStore
	rs     *zzrepo.RefStore
	f      *zzrepo.Fault
	id     uuid.UUID
	names  []string
	pre    map[string][]byte // branch -> head before the transaction (nil = new branch)
	staged map[string][]byte
	tables map[string][]byte
}

func zzSetup(nBranches int) *zzTx {
	t := &zzTx{db: zzrepo.NewObjStore(), rs: zzrepo.NewRefStore(), f: &zzrepo.Fault{}, pre: map[string][]byte{}, staged: map[string][]byte{}, tables: map[string][]byte{}}
	t.id[0] = 7
	t.rs.Txs[t.id] = &ref.Transaction{ID: t.id, Status: ref.TSInProgress, Begin: time.Unix(1600000000, 0)}
	base, _ := zzrepo.SaveCommit(t.db, bytes.Repeat([]byte{1}, 16), "base", 1600000000)
	t.names = []string{"alpha", "beta", "gamma"}[:nBranches]
	for i, n := range t.names {
		if i == 0 || zzverif.Bool("branchExists") {
			t.rs.Refs["heads/"+n] = base
			t.pre[n] = base
		}
		tbl := bytes.Repeat([]byte{byte(10 + i)}, 16)
		s, _ := zzrepo.SaveCommit(t.db, tbl, "staged "+n, 1600000100)
		t.staged[n] = s
		t.tables[n] = tbl
		t.rs.Refs[ref.TransactionRef(t.id.String(), n)] = s
	}
	t.db.F, t.rs.F = t.f, t.f
	return t
}

func (t *zzTx) moved() int {
	m := 0
	for _, n := range t.names {
		cur, _ := t.rs.Get("heads/" + n)
		if !bytes.Equal(cur, t.pre[n]) {
			m++
		}
	}
	return m
}

func Harness_C14_commit_fault() {
	t := zzSetup(zzverif.Param("branches", 1))
	t.f.At = zzverif.Int("faultAt", 0, 3*len(t.names)+2)
	t.f.Kind = zzverif.Choose("faultKind", 2)
	zzverif.Region("fault-after-a-branch-moved", t.f.At >= 3)
	crashed, err := zzrepo.TryCrash(func() error { _, e := Commit(t.db, t.rs, t.id); return e })
	failed := crashed || err != nil
	if t.f.At == 0 {
		zzverif.Assert("commit-succeeds-without-fault", !failed)
	}
	if failed {
		t.f.Reopen()
		m := t.moved()
		tx, _ := t.rs.GetTransaction(t.id)
		if m == 0 {
			zzverif.Assert("failed-commit-left-transaction-open", tx.Status == ref.TSInProgress)
			zzverif.Reach("none-moved")
		}
		// "... or can be completed by re-running it to exactly the all-branches outcome"
		c2, err2 := zzrepo.TryCrash(func() error { _, e := Commit(t.db, t.rs, t.id); return e })
		zzverif.Assert("rerun-after-failure-succeeds", !c2 && err2 == nil)
		zzverif.Reach("rerun")
	}
	tx, _ := t.rs.GetTransaction(t.id)
	zzverif.Assert("transaction-marked-committed", tx.Status == ref.TSCommitted)
	for _, n := range t.names {
		cur, err := t.rs.Get("heads/" + n)
		zzverif.Assert("branch-exists", err == nil)
		if err != nil {
			continue
		}
		com, err := objects.GetCommit(t.db, cur)
		zzverif.Assert("branch-head-readable", err == nil)
		if err != nil {
			continue
		}
		zzverif.Assert("branch-carries-staged-data", bytes.Equal(com.Table, t.tables[n]))
		if t.pre[n] == nil {
			zzverif.Assert("new-branch-has-no-parent", len(com.Parents) == 0)
		} else {
			zzverif.Assert("parent-is-pre-transaction-head-no-duplicate-commit", len(com.Parents) == 1 && bytes.Equal(com.Parents[0], t.pre[n]))
		}
		zzverif.Assert("exactly-one-log-entry-per-branch", len(t.rs.Logs["heads/"+n]) == 1)
		if len(t.rs.Logs["heads/"+n]) == 1 {
			l := t.rs.Logs["heads/"+n][0]
			zzverif.Assert("log-records-true-old-and-new", bytes.Equal(l.NewOID, cur) && bytes.Equal(l.OldOID, t.pre[n]) && l.Txid != nil && *l.Txid == t.id)
		}
	}
	zzverif.Reach("end")
}

// Sequences: commit->commit, commit->discard, discard->commit, discard with fault.
func Harness_C14_sequences() {
	t := zzSetup(zzverif.Param("branches", 2))
	first := zzverif.Choose("first", 2) // 0 commit, 1 discard
	second := zzverif.Choose("second", 2)
	snapshot := func() map[string]string {
		m := map[string]string{}
		for k, v := range t.rs.Refs {
			m[k] = string(v)
		}
		return m
	}
	heads0 := snapshot()
	if first == 0 {
		_, err := Commit(t.db, t.rs, t.id)
		zzverif.Assert("first-commit-succeeds", err == nil)
	} else {
		err := Discard(t.rs, t.id)
		zzverif.Assert("first-discard-succeeds", err == nil)
		for k, v := range snapshot() {
			if len(k) >= 6 && k[:6] == "heads/" {
				zzverif.Assert("discard-never-touches-a-branch", heads0[k] == v)
			}
			zzverif.Assert("discard-removes-all-staged-refs", len(k) < 4 || k[:4] != "txs/")
		}
	}
	before := snapshot()
	nLogs := 0
	for _, l := range t.rs.Logs {
		nLogs += len(l)
	}
	var err error
	if second == 0 {
		_, err = Commit(t.db, t.rs, t.id)
	} else {
		err = Discard(t.rs, t.id)
	}
	zzverif.Region("discard-after-commit", first == 0 && second == 1)
	zzverif.Region("commit-after-commit", first == 0 && second == 0)
	zzverif.Assert("second-operation-refused", err != nil)
	after := snapshot()
	same := len(before) == len(after)
	for k, v := range before {
		if after[k] != v {
			same = false
		}
	}
	zzverif.Assert("refused-operation-changes-no-ref", same)
	nLogs2 := 0
	for _, l := range t.rs.Logs {
		nLogs2 += len(l)
	}
	zzverif.Assert("refused-operation-writes-no-log", nLogs2 == nLogs)
	zzverif.Reach("end")
}

// An interrupted Commit, then ordinary work goes on (a plain commit lands on a branch the
// interrupted run had already moved), then Commit is run again: it completes the
// other branches and leaves the moved ones alone - no duplicate commit, one log
// entry of this transaction per branch.
func Harness_C14_commit_fault_intervening() {
	t := zzSetup(zzverif.Param("branches", 2))
	t.f.At = zzverif.Int("faultAt", 1, 3*len(t.names)+2)
	t.f.Kind = zzverif.Choose("faultKind", 2)
	crashed, err := zzrepo.TryCrash(func() error { _, e := Commit(t.db, t.rs, t.id); return e })
	zzverif.Assume(crashed || err != nil)
	t.f.Reopen()
	// ordinary commits on branches that were already moved
	txHead := map[string][]byte{}
	later := map[string][]byte{}
	for _, n := range t.names {
		cur, gerr := t.rs.Get("heads/" + n)
		if gerr != nil || bytes.Equal(cur, t.pre[n]) {
			continue
		}
		txHead[n] = cur
		if zzverif.Bool("ordinaryCommitOnMovedBranch") {
			sum, com := zzrepo.SaveCommit(t.db, bytes.Repeat([]byte{0x77}, 16), "later work on "+n, 1600000200, cur)
			zzverif.Assert("ordinary-commit-no-error", ref.CommitHead(t.rs, n, sum, com, nil) == nil)
			later[n] = sum
		}
	}
	c2, err2 := zzrepo.TryCrash(func() error { _, e := Commit(t.db, t.rs, t.id); return e })
	zzverif.Assert("rerun-after-failure-succeeds", !c2 && err2 == nil)
	tx, _ := t.rs.GetTransaction(t.id)
	zzverif.Assert("transaction-marked-committed", tx.Status == ref.TSCommitted)
	for _, n := range t.names {
		cur, err := t.rs.Get("heads/" + n)
		zzverif.Assert("branch-exists", err == nil)
		if err != nil {
			continue
		}
		txCommit := cur
		if l, ok := later[n]; ok {
			zzverif.Assert("rerun-leaves-a-branch-with-later-work-alone", bytes.Equal(cur, l))
			txCommit = txHead[n]
		} else if h, ok := txHead[n]; ok {
			zzverif.Assert("rerun-leaves-an-already-moved-branch-alone", bytes.Equal(cur, h))
		}
		com, err := objects.GetCommit(t.db, txCommit)
		zzverif.Assert("transaction-commit-readable", err == nil)
		if err != nil {
			continue
		}
		zzverif.Assert("branch-carries-staged-data", bytes.Equal(com.Table, t.tables[n]))
		if t.pre[n] == nil {
			zzverif.Assert("new-branch-has-no-parent", len(com.Parents) == 0)
		} else {
			zzverif.Assert("parent-is-pre-transaction-head-no-duplicate-commit", len(com.Parents) == 1 && bytes.Equal(com.Parents[0], t.pre[n]))
		}
		ntx := 0
		for _, l := range t.rs.Logs["heads/"+n] {
			if l.Txid != nil && *l.Txid == t.id {
				ntx++
				zzverif.Assert("transaction-log-entry-has-true-values", bytes.Equal(l.NewOID, txCommit) && bytes.Equal(l.OldOID, t.pre[n]))
			}
		}
		zzverif.Assert("exactly-one-log-entry-of-the-transaction-per-branch", ntx == 1)
	}
	zzverif.Reach("end")
}

// Discard under a fault: the k-th store write of Discard (the deletion of a staged
// ref, or of the transaction record) fails once or kills the process. "Discarding
// removes all staged refs and never touches a branch": a Discard that reports success
// has removed every staged ref and the record; one that failed has left the record in
// place, so that running Discard again finishes the job; no branch moves either way.
func Harness_C14_discard_fault() {
	t := zzSetup(zzverif.Param("branches", 2))
	heads0 := map[string]string{}
	for k, v := range t.rs.Refs {
		if len(k) >= 6 && k[:6] == "heads/" {
			heads0[k] = string(v)
		}
	}
	check := func(label string) (stagedLeft int) {
		nHeads := 0
		for k, v := range t.rs.Refs {
			if len(k) >= 6 && k[:6] == "heads/" {
				nHeads++
				zzverif.Assert("discard-never-touches-a-branch"+label, heads0[k] == string(v))
			}
			if len(k) >= 4 && k[:4] == "txs/" {
				stagedLeft++
			}
		}
		zzverif.Assert("discard-never-creates-or-deletes-a-branch"+label, nHeads == len(heads0))
		return
	}
	t.f.At = zzverif.Int("faultAt", 0, len(t.names)+2)
	t.f.Kind = zzverif.Choose("faultKind", 2)
	crashed, err := zzrepo.TryCrash(func() error { return Discard(t.rs, t.id) })
	failed := crashed || err != nil
	if t.f.At == 0 {
		zzverif.Assert("discard-succeeds-without-fault", !failed)
	}
	t.f.Reopen()
	left := check("")
	_, gerr := t.rs.GetTransaction(t.id)
	if !failed {
		zzverif.Assert("successful-discard-removed-every-staged-ref", left == 0)
		zzverif.Assert("successful-discard-removed-the-transaction", gerr != nil)
		zzverif.Reach("clean")
	} else {
		// a staged ref that outlives its transaction record can never be discarded
		zzverif.Assert("failed-discard-keeps-the-transaction-while-staged-refs-remain", left == 0 || gerr == nil)
		if gerr == nil {
			c2, err2 := zzrepo.TryCrash(func() error { return Discard(t.rs, t.id) })
			zzverif.Assert("rerun-of-discard-succeeds", !c2 && err2 == nil)
			zzverif.Assert("rerun-of-discard-removed-every-staged-ref", check("-after-rerun") == 0)
			_, gerr2 := t.rs.GetTransaction(t.id)
			zzverif.Assert("rerun-of-discard-removed-the-transaction", gerr2 != nil)
			zzverif.Reach("rerun")
		}
	}
	zzverif.Reach("end")
}
