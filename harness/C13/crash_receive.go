//go:build verif

package apiutils

import (
	"bytes"
	"fmt"
	"io"

	"github.com/go-logr/logr"
	"github.com/wrgl/wrgl/pkg/encoding/packfile"
	"github.com/wrgl/wrgl/pkg/objects"
	"github.com/wrgl/wrgl/pkg/ref"
	"github.com/wrgl/wrgl/pkg/zzverif"
	"github.com/wrgl/wrgl/pkg/zzverif/zzrepo"
)

// C13b: receiving a packfile (fetch / the server side of push) followed by the
// caller's ref update, with the failing store write as a solver variable.

type zz13Src struct {
	src     *zzrepo.ObjStore
	commits []*objects.Commit
	tables  [][]byte
}

func zz13BuildSrc() *zz13Src {
	sc := &zz13Src{src: zzrepo.NewObjStore()}
	add := func(n int, tag string, ts int64, parents ...int) {
		var rows [][]string
		for i := 0; i < n; i++ {
			rows = append(rows, []string{fmt.Sprintf("k%03d", i), tag})
		}
		sum, _ := zzrepo.SaveTable(sc.src, []string{"a", "b"}, []uint32{0}, rows, 255)
		var ps [][]byte
		for _, p := range parents {
			ps = append(ps, sc.commits[p].Sum)
		}
		_, c := zzrepo.SaveCommit(sc.src, sum, tag, ts, ps...)
		sc.commits = append(sc.commits, c)
		sc.tables = append(sc.tables, sum)
	}
	switch zzverif.Param("shape", 0) {
	case 0: // chain of two
		add(2, "x", 1600000000)
		add(3, "y", 1600000100, 0)
	case 1: // fork and merge, one table of two blocks, one table carried by two commits
		add(2, "x", 1600000000)
		add(256, "y", 1600000100, 0)
		add(3, "z", 1600000100, 0)
		add(256, "y", 1600000200, 1, 2)
	}
	return sc
}

// zz13Pre gives the destination what it already has before the fetch starts.
func zz13Pre(sc *zz13Src, db *zzrepo.ObjStore) {
	if zzverif.Param("pre", 0) == 1 {
		for k, v := range sc.src.M {
			_ = v
			zzrepo.CopyKey(db, sc.src, k)
		}
		// ... everything of the first commit only: drop the rest again
		keep := map[string]bool{}
		first := zzrepo.NewObjStore()
		_ = first
		t, _ := objects.GetTable(sc.src, sc.tables[0])
		keep["com/"+string(sc.commits[0].Sum)] = true
		for _, p := range []string{"tbl/", "tblidx/", "tblsum/"} {
			keep[p+string(sc.tables[0])] = true
		}
		for i, b := range t.Blocks {
			keep["blk/"+string(b)] = true
			keep["blkidx/"+string(t.BlockIndices[i])] = true
		}
		for k := range db.M {
			if !keep[k] {
				delete(db.M, k)
			}
		}
	}
}

func zz13Fetch(sc *zz13Src, db *zzrepo.ObjStore, rs *zzrepo.RefStore, max uint64) error {
	// what the destination lacks
	var toSend []*objects.Commit
	var common [][]byte
	tables := map[string]struct{}{}
	for i, c := range sc.commits {
		if objects.CommitExist(db, c.Sum) && objects.TableExist(db, sc.tables[i]) {
			common = append(common, c.Sum)
			continue
		}
		toSend = append(toSend, c)
		tables[string(sc.tables[i])] = struct{}{}
	}
	last := sc.commits[len(sc.commits)-1]
	if len(toSend) > 0 {
		sender, err := NewObjectSender(sc.src, toSend, tables, common, max)
		if err != nil {
			return err
		}
		recv := NewObjectReceiver(db, [][]byte{last.Sum}, logr.Discard())
		for k := 0; k < 40; k++ {
			buf := bytes.NewBuffer(nil)
			done, _, err := sender.WriteObjects(buf, nil)
			if err != nil {
				return err
			}
			pr, err := packfile.NewPackfileReader(io.NopCloser(bytes.NewReader(buf.Bytes())))
			if err != nil {
				return err
			}
			if _, err := recv.Receive(pr, nil); err != nil {
				return err
			}
			if done {
				break
			}
		}
	}
	return ref.SaveFetchRef(rs, "remotes/origin/main", last.Sum, "u", "u@x", "origin", "storing head")
}

func zz13ConsistentR(tag string, db *zzrepo.ObjStore, rs *zzrepo.RefStore) {
	for _, sum := range rs.Refs {
		_, err := objects.GetCommit(db, sum)
		zzverif.Assert(tag+"every-ref-resolves-to-a-readable-commit", err == nil)
	}
	ckeys, _ := objects.GetAllCommitKeys(db)
	for _, k := range ckeys {
		c, err := objects.GetCommit(db, k)
		zzverif.Assert(tag+"stored-commit-readable", err == nil)
		if err == nil {
			for _, p := range c.Parents {
				zzverif.Assert(tag+"every-stored-commit-has-its-parents", objects.CommitExist(db, p))
			}
		}
	}
	tkeys, _ := objects.GetAllTableKeys(db)
	for _, k := range tkeys {
		t, err := objects.GetTable(db, k)
		zzverif.Assert(tag+"present-table-readable", err == nil)
		if err != nil {
			continue
		}
		for i, b := range t.Blocks {
			zzverif.Assert(tag+"present-table-has-all-blocks", objects.BlockExist(db, b))
			zzverif.Assert(tag+"present-table-has-all-block-indices", i < len(t.BlockIndices) && objects.BlockIndexExist(db, t.BlockIndices[i]))
		}
		idx, err := objects.GetTableIndex(db, k)
		zzverif.Assert(tag+"present-table-has-its-table-index", err == nil && len(idx) == len(t.Blocks))
	}
}

func Harness_C13_receive() {
	sc := zz13BuildSrc()
	max := uint64(zzverif.Param("maxPack", 0))
	probe := &zzrepo.Fault{}
	pdb, prs := zzrepo.NewObjStore(), zzrepo.NewRefStore()
	zz13Pre(sc, pdb)
	pdb.F, prs.F = probe, probe
	if err := zz13Fetch(sc, pdb, prs, max); err != nil {
		panic(err)
	}
	total := probe.Writes
	db, rs := zzrepo.NewObjStore(), zzrepo.NewRefStore()
	f := &zzrepo.Fault{At: zzverif.Int("faultAt", 1, total), Kind: zzverif.Choose("faultKind", 2)}
	zz13Pre(sc, db)
	db.F, rs.F = f, f
	crashed, err := zzrepo.TryCrash(func() error { return zz13Fetch(sc, db, rs, max) })
	zzverif.Assert("fault-surfaces-as-crash-or-error", crashed || err != nil)
	f.Reopen()
	zz13ConsistentR("after-fault-", db, rs)
	err = zz13Fetch(sc, db, rs, max)
	zzverif.Assert("rerun-succeeds", err == nil)
	if err == nil {
		for k, v := range pdb.M {
			got, ok := db.M[k]
			zzverif.Assert("rerun-ends-with-the-same-objects-as-an-uninterrupted-run", ok && bytes.Equal(got, v))
		}
		zzverif.Assert("rerun-ends-with-the-same-refs", bytes.Equal(rs.Refs["remotes/origin/main"], prs.Refs["remotes/origin/main"]))
	}
	zz13ConsistentR("after-rerun-", db, rs)
	zzverif.Observe("writes", total)
	zzverif.Reach("end")
}
