//go:build verif

package apiclient

import (
	"bytes"
	"fmt"
	"net/http/httptest"

	"github.com/go-logr/logr"
	"github.com/wrgl/wrgl/pkg/objects"
	"github.com/wrgl/wrgl/pkg/ref"
	"github.com/wrgl/wrgl/pkg/zzverif"
	"github.com/wrgl/wrgl/pkg/zzverif/zzrepo"
)

// C13 (fetch): the real client fetch session (UploadPackSession: negotiation, table
// acknowledgements, ObjectReceiver) followed by the ref update, against the reference
// server of the C09 harness, with the client's process dying - or one write failing -
// at a store write chosen by the solver. After "reopening": the invariants of the
// statement; then the same fetch is run again (a fresh session against a fresh server)
// and must end with everything an uninterrupted fetch leaves: every commit reachable
// from the fetched ref with its table, blocks, block indices and table index.

type zz13fRepo struct {
	sdb *zzrepo.ObjStore
	srs *zzrepo.RefStore
	h   *zz9Hist
}

func zz13fServerRepo(n int) *zz13fRepo {
	r := &zz13fRepo{sdb: zzrepo.NewObjStore(), srs: zzrepo.NewRefStore(), h: &zz9Hist{n: n, edges: make([][]bool, n)}}
	for i := 0; i < n; i++ {
		r.h.edges[i] = make([]bool, n)
		var ps [][]byte
		if i > 0 {
			// a chain, plus (for i >= 2) a second parent two steps back on even commits
			r.h.edges[i][i-1] = true
			ps = append(ps, r.h.commits[i-1].Sum)
			if i >= 2 && i%2 == 0 {
				r.h.edges[i][i-2] = true
				ps = append(ps, r.h.commits[i-2].Sum)
			}
		}
		sum, tbl := zzrepo.SaveTable(r.sdb, []string{"a", "b"}, []uint32{0}, [][]string{{fmt.Sprintf("k%d", i), "v"}, {"z", fmt.Sprintf("w%d", i)}}, 255)
		_, c := zzrepo.SaveCommit(r.sdb, sum, fmt.Sprintf("c%d", i), int64(1600000000+100*i), ps...)
		r.h.commits = append(r.h.commits, c)
		r.h.tables = append(r.h.tables, sum)
		r.h.tbls = append(r.h.tbls, tbl)
	}
	r.srs.Refs["heads/main"] = r.h.commits[n-1].Sum
	return r
}

// one fetch: session + ref update, as fetch.Fetch does
func zz13fFetch(r *zz13fRepo, ldb *zzrepo.ObjStore, lrs *zzrepo.RefStore, maxPack uint64) error {
	srv := &zz9Server{db: r.sdb, rs: r.srs, maxPack: maxPack}
	zz9Srv = srv
	var c *Client
	if zzverif.UnderGosym() {
		c = &Client{logger: logr.Discard()}
	} else {
		ts := httptest.NewServer(srv)
		defer ts.Close()
		var err error
		c, err = NewClient(ts.URL, logr.Discard())
		if err != nil {
			return err
		}
	}
	tip := r.h.commits[r.h.n-1].Sum
	ses, err := NewUploadPackSession(ldb, lrs, c, [][]byte{tip}, WithUploadPackHavesPerRoundTrip(2))
	if err != nil {
		if err.Error() != "nothing wanted" {
			return err
		}
	} else if _, err = ses.Start(); err != nil {
		return err
	}
	return ref.SaveFetchRef(lrs, "remotes/origin/main", tip, "u", "u@x", "origin", "storing head")
}

func zz13fConsistent(tag string, db *zzrepo.ObjStore, rs *zzrepo.RefStore) {
	for _, sum := range rs.Refs {
		_, err := objects.GetCommit(db, sum)
		zzverif.Assert(tag+"every-ref-resolves-to-a-readable-commit", err == nil)
	}
	ckeys, _ := objects.GetAllCommitKeys(db)
	for _, k := range ckeys {
		c, err := objects.GetCommit(db, k)
		zzverif.Assert(tag+"stored-commit-readable", err == nil)
		if err == nil {
			for _, p := range c.Parents {
				zzverif.Assert(tag+"every-stored-commit-has-its-parents", objects.CommitExist(db, p))
			}
		}
	}
	tkeys, _ := objects.GetAllTableKeys(db)
	for _, k := range tkeys {
		t, err := objects.GetTable(db, k)
		zzverif.Assert(tag+"present-table-readable", err == nil)
		if err != nil {
			continue
		}
		for i, b := range t.Blocks {
			zzverif.Assert(tag+"present-table-has-all-blocks", objects.BlockExist(db, b))
			zzverif.Assert(tag+"present-table-has-all-block-indices", i < len(t.BlockIndices) && objects.BlockIndexExist(db, t.BlockIndices[i]))
		}
		zzverif.Assert(tag+"present-table-has-its-table-index", objects.TableIndexExist(db, k))
	}
}

func Harness_C13_fetch_session() {
	n := zzverif.Param("n", 2)
	maxPack := uint64(zzverif.Param("maxPack", 0))
	r := zz13fServerRepo(n)
	// what the client has before: nothing, or the first commit in full
	pre := func(db *zzrepo.ObjStore, rs *zzrepo.RefStore) {
		if zzverif.Param("pre", 0) == 1 {
			zz9Copy(db, r.sdb, r.h, 0, true)
			rs.Refs["remotes/origin/old"] = r.h.commits[0].Sum
		}
	}
	probe := &zzrepo.Fault{}
	pdb, prs := zzrepo.NewObjStore(), zzrepo.NewRefStore()
	pre(pdb, prs)
	pdb.F, prs.F = probe, probe
	if err := zz13fFetch(r, pdb, prs, maxPack); err != nil {
		panic(err)
	}
	total := probe.Writes

	db, rs := zzrepo.NewObjStore(), zzrepo.NewRefStore()
	pre(db, rs)
	f := &zzrepo.Fault{At: zzverif.Int("faultAt", 1, total), Kind: zzverif.Choose("faultKind", 2)}
	db.F, rs.F = f, f
	crashed, err := zzrepo.TryCrash(func() error { return zz13fFetch(r, db, rs, maxPack) })
	zzverif.Assert("fault-surfaces-as-crash-or-error", crashed || err != nil)
	f.Reopen()
	zz13fConsistent("after-fault-", db, rs)
	err = zz13fFetch(r, db, rs, maxPack)
	zzverif.Assert("rerun-succeeds", err == nil)
	if err == nil {
		zzverif.Assert("rerun-ends-with-the-same-ref", bytes.Equal(rs.Refs["remotes/origin/main"], prs.Refs["remotes/origin/main"]))
		for i := 0; i < n; i++ {
			zzverif.Assert("rerun-every-commit-of-the-history-present", objects.CommitExist(db, r.h.commits[i].Sum))
			zzverif.Assert("rerun-every-table-of-the-history-present", objects.TableExist(db, r.h.tables[i]))
			for k, b := range r.h.tbls[i].Blocks {
				zzverif.Assert("rerun-every-block-present", objects.BlockExist(db, b))
				zzverif.Assert("rerun-every-block-index-present", objects.BlockIndexExist(db, r.h.tbls[i].BlockIndices[k]))
			}
			zzverif.Assert("rerun-every-table-index-present", objects.TableIndexExist(db, r.h.tables[i]))
		}
	}
	zz13fConsistent("after-rerun-", db, rs)
	zzverif.Observe("writes", total)
	zzverif.Reach("end")
}
