//go:build verif

package ingest

import (
	"bytes"
	"fmt"
	"time"

	"github.com/go-logr/logr"
	"github.com/wrgl/wrgl/pkg/objects"
	"github.com/wrgl/wrgl/pkg/ref"
	"github.com/wrgl/wrgl/pkg/sorter"
	"github.com/wrgl/wrgl/pkg/zzverif"
	"github.com/wrgl/wrgl/pkg/zzverif/zzrepo"
)

// C13a: commit = ingest a table, save the commit object, move the branch. The
// crash point is ONE solver variable: the index of the store write (object store
// and ref store share one counter) at which the process dies or the write fails.
// After "reopening" the stores the consistency invariants of the statement are
// checked and the operation is run again.

func zz13Rows(n int) [][]string {
	var rows [][]string
	for i := 0; i < n; i++ {
		rows = append(rows, []string{fmt.Sprintf("k%03d", (i*7)%n), fmt.Sprintf("v%d", i)})
	}
	return rows
}

func zz13Commit(db objects.Store, rs ref.Store, rows [][]string, workers int) ([]byte, error) {
	s, err := sorter.NewSorter(sorter.WithRunSize(1 << 30))
	if err != nil {
		return nil, err
	}
	s.Columns = []string{"a", "b"}
	s.PK = []uint32{0}
	for _, r := range rows {
		s.AddRow(r)
	}
	sum, err := NewInserter(db, s, logr.Discard(), WithNumWorkers(workers)).IngestTableFromSorter(s.Columns, s.PK)
	if err != nil {
		return nil, err
	}
	var parents [][]byte
	if old, err := ref.GetHead(rs, "main"); err == nil {
		parents = append(parents, old)
	}
	c := &objects.Commit{Table: sum, AuthorName: "a", AuthorEmail: "e", Message: "msg", Time: time.Unix(1600000000, 0).UTC(), Parents: parents}
	buf := bytes.NewBuffer(nil)
	if _, err := c.WriteTo(buf); err != nil {
		return nil, err
	}
	csum, err := objects.SaveCommit(db, buf.Bytes())
	if err != nil {
		return nil, err
	}
	if err := ref.CommitHead(rs, "main", csum, c, nil); err != nil {
		return nil, err
	}
	return sum, nil
}

// zz13Consistent checks the invariants of C13 on "reopened" stores.
func zz13Consistent(tag string, db *zzrepo.ObjStore, rs *zzrepo.RefStore) {
	for name, sum := range rs.Refs {
		_ = name
		c, err := objects.GetCommit(db, sum)
		zzverif.Assert(tag+"every-ref-resolves-to-a-readable-commit", err == nil)
		if err != nil {
			continue
		}
		zzverif.Assert(tag+"branch-never-points-at-a-commit-lacking-its-table", objects.TableExist(db, c.Table))
	}
	ckeys, _ := objects.GetAllCommitKeys(db)
	for _, k := range ckeys {
		c, err := objects.GetCommit(db, k)
		zzverif.Assert(tag+"stored-commit-readable", err == nil)
		if err == nil {
			for _, p := range c.Parents {
				zzverif.Assert(tag+"every-stored-commit-has-its-parents", objects.CommitExist(db, p))
			}
		}
	}
	tkeys, _ := objects.GetAllTableKeys(db)
	for _, k := range tkeys {
		t, err := objects.GetTable(db, k)
		zzverif.Assert(tag+"present-table-readable", err == nil)
		if err != nil {
			continue
		}
		for i, b := range t.Blocks {
			zzverif.Assert(tag+"present-table-has-all-blocks", objects.BlockExist(db, b))
			zzverif.Assert(tag+"present-table-has-all-block-indices", i < len(t.BlockIndices) && objects.BlockIndexExist(db, t.BlockIndices[i]))
		}
		idx, err := objects.GetTableIndex(db, k)
		zzverif.Assert(tag+"present-table-has-its-table-index", err == nil && len(idx) == len(t.Blocks))
	}
}

func Harness_C13_commit() {
	rows := zz13Rows(zzverif.Param("rows", 3))
	workers := zzverif.Param("workers", 1)
	// uninterrupted reference run
	rdb, rrs := zzrepo.NewObjStore(), zzrepo.NewRefStore()
	refSum, err := zz13Commit(rdb, rrs, rows, workers)
	if err != nil {
		panic(err)
	}
	probe := &zzrepo.Fault{}
	rdb2, rrs2 := zzrepo.NewObjStore(), zzrepo.NewRefStore()
	rdb2.F, rrs2.F = probe, probe
	zz13Commit(rdb2, rrs2, rows, workers)
	total := probe.Writes

	db, rs := zzrepo.NewObjStore(), zzrepo.NewRefStore()
	f := &zzrepo.Fault{At: zzverif.Int("faultAt", 1, total), Kind: zzverif.Choose("faultKind", 2)}
	db.F, rs.F = f, f
	zzverif.Region("fault-between-table-object-and-its-index", false)
	crashed, err := zzrepo.TryCrash(func() error { _, e := zz13Commit(db, rs, rows, workers); return e })
	zzverif.Assert("fault-surfaces-as-crash-or-error", crashed || err != nil)
	f.Reopen()
	zz13Consistent("after-fault-", db, rs)
	// the same operation again must succeed and end like an uninterrupted run
	sum2, err := zz13Commit(db, rs, rows, workers)
	zzverif.Assert("rerun-succeeds", err == nil)
	if err == nil {
		zzverif.Assert("rerun-ends-with-the-same-table-as-an-uninterrupted-run", bytes.Equal(sum2, refSum))
		head, _ := ref.GetHead(rs, "main")
		c, err := objects.GetCommit(db, head)
		zzverif.Assert("rerun-head-readable", err == nil)
		if err == nil {
			zzverif.Assert("rerun-head-carries-the-table", bytes.Equal(c.Table, refSum))
			zzverif.Assert("rerun-history-has-no-extra-commit", len(c.Parents) == 0)
		}
	}
	zz13Consistent("after-rerun-", db, rs)
	zzverif.Observe("writes", total)
	zzverif.Reach("end")
}
