//go:build verif

package wrgl

import (
	"bytes"
	"context"
	"io"

	"github.com/go-logr/logr"
	"github.com/spf13/cobra"
	"github.com/wrgl/wrgl/cmd/wrgl/utils"
	"github.com/wrgl/wrgl/pkg/conf"
	"github.com/wrgl/wrgl/pkg/objects"
	"github.com/wrgl/wrgl/pkg/pbar"
	"github.com/wrgl/wrgl/pkg/ref"
	"github.com/wrgl/wrgl/pkg/zzverif"
	"github.com/wrgl/wrgl/pkg/zzverif/zzrepo"
)

// C13 (merge): the real runMerge (cmd/wrgl) - a conflict-free three-way merge that
// ingests the merged table, saves the merge commit and moves the branch - with the
// process dying, or one write failing, at a store write chosen by the solver
// (object store and ref store share one counter). After "reopening": the invariants
// of the statement; then the same command again must succeed and end with the
// branch at a merge commit with the same parents and the same table as an
// uninterrupted run.

func zz13mWithProgressBar(cmd *cobra.Command, quiet bool, run func(cmd *cobra.Command, barContainer *pbar.Container) error) error {
	return run(cmd, pbar.NewContainer(io.Discard, true))
}

func zz13mProfileTable(db objects.Store, sum []byte, tbl *objects.Table) error { return nil }

type zz13mCtx struct {
	context.Context
	k, v any
}

func (c *zz13mCtx) Value(k any) any {
	if k == c.k {
		return c.v
	}
	return c.Context.Value(k)
}

func zz13mWithValue(parent context.Context, key, val any) context.Context {
	return &zz13mCtx{parent, key, val}
}

func zz13mConsistent(tag string, db *zzrepo.ObjStore, rs *zzrepo.RefStore) {
	for _, sum := range rs.Refs {
		c, err := objects.GetCommit(db, sum)
		zzverif.Assert(tag+"every-ref-resolves-to-a-readable-commit", err == nil)
		if err != nil {
			continue
		}
		zzverif.Assert(tag+"branch-never-points-at-a-commit-lacking-its-table", objects.TableExist(db, c.Table))
	}
	ckeys, _ := objects.GetAllCommitKeys(db)
	for _, k := range ckeys {
		c, err := objects.GetCommit(db, k)
		zzverif.Assert(tag+"stored-commit-readable", err == nil)
		if err == nil {
			for _, p := range c.Parents {
				zzverif.Assert(tag+"every-stored-commit-has-its-parents", objects.CommitExist(db, p))
			}
		}
	}
	tkeys, _ := objects.GetAllTableKeys(db)
	for _, k := range tkeys {
		t, err := objects.GetTable(db, k)
		zzverif.Assert(tag+"present-table-readable", err == nil)
		if err != nil {
			continue
		}
		for i, b := range t.Blocks {
			zzverif.Assert(tag+"present-table-has-all-blocks", objects.BlockExist(db, b))
			zzverif.Assert(tag+"present-table-has-all-block-indices", i < len(t.BlockIndices) && objects.BlockIndexExist(db, t.BlockIndices[i]))
		}
		idx, err := objects.GetTableIndex(db, k)
		zzverif.Assert(tag+"present-table-has-its-table-index", err == nil && len(idx) == len(t.Blocks))
	}
}

type zz13mRepo struct {
	db     *zzrepo.ObjStore
	rs     *zzrepo.RefStore
	c1, c2 []byte
}

func zz13mSetup(rm int) *zz13mRepo {
	r := &zz13mRepo{db: zzrepo.NewObjStore(), rs: zzrepo.NewRefStore()}
	base := [][]string{{"1", "q", "w"}, {"2", "a", "s"}, {"3", "z", "x"}}
	b1 := [][]string{{"1", "Q", "w"}, {"2", "a", "s"}, {"3", "z", "x"}}
	b2 := [][]string{{"1", "q", "w"}, {"2", "a", "S"}, {"3", "z", "x"}, {"4", "n", "m"}}
	cols := []string{"a", "b", "c"}
	cols2 := cols
	if rm == 1 {
		// the second branch also drops column b
		cols2 = []string{"a", "c"}
		for i := range b2 {
			b2[i] = []string{b2[i][0], b2[i][2]}
		}
		b1[0][1] = "q"
		b1[2][2] = "T"
	}
	t0, _ := zzrepo.SaveTable(r.db, cols, []uint32{0}, base, 255)
	t1, _ := zzrepo.SaveTable(r.db, cols, []uint32{0}, b1, 255)
	t2, _ := zzrepo.SaveTable(r.db, cols2, []uint32{0}, b2, 255)
	c0, _ := zzrepo.SaveCommit(r.db, t0, "base", 1000000000)
	r.c1, _ = zzrepo.SaveCommit(r.db, t1, "one", 1000000010, c0)
	r.c2, _ = zzrepo.SaveCommit(r.db, t2, "two", 1000000020, c0)
	r.rs.Refs["heads/main"] = r.c1
	r.rs.Refs["heads/other"] = r.c2
	return r
}

func zz13mMerge(r *zz13mRepo) error {
	cmd := &cobra.Command{Use: "merge"}
	cmd.SetOut(io.Discard)
	cmd.SetErr(io.Discard)
	if !zzverif.UnderGosym() {
		utils.SetupProgressBarFlags(cmd.Flags())
		cmd.Flags().Set("no-progress", "true")
	}
	logger := logr.Discard()
	cmd.SetContext(utils.SetLogger(context.Background(), &logger))
	cfg := &conf.Config{User: &conf.User{Name: "u", Email: "u@x"}}
	return runMerge(cmd, cfg, r.db, r.rs, []string{"main", "other"}, false, false, conf.FF_Default, "", zzverif.Param("workers", 1), "", nil)
}

func Harness_C13_merge() {
	rm := zzverif.Param("rm", 0)
	// uninterrupted reference run
	ref0 := zz13mSetup(rm)
	if err := zz13mMerge(ref0); err != nil {
		panic(err)
	}
	refHead, _ := ref.GetHead(ref0.rs, "main")
	refCom, err := objects.GetCommit(ref0.db, refHead)
	if err != nil {
		panic(err)
	}
	probe := &zzrepo.Fault{}
	pr := zz13mSetup(rm)
	pr.db.F, pr.rs.F = probe, probe
	zz13mMerge(pr)
	total := probe.Writes

	r := zz13mSetup(rm)
	f := &zzrepo.Fault{At: zzverif.Int("faultAt", 1, total), Kind: zzverif.Choose("faultKind", 2)}
	r.db.F, r.rs.F = f, f
	crashed, err := zzrepo.TryCrash(func() error { return zz13mMerge(r) })
	zzverif.Assert("fault-surfaces-as-crash-or-error", crashed || err != nil)
	f.Reopen()
	zz13mConsistent("after-fault-", r.db, r.rs)
	zzverif.Assert("after-fault-other-branch-untouched", bytes.Equal(r.rs.Refs["heads/other"], r.c2))
	headAfter := r.rs.Refs["heads/main"]
	zzverif.Assert("after-fault-branch-at-old-head-or-at-a-merge-commit", bytes.Equal(headAfter, r.c1) || !bytes.Equal(headAfter, r.c2))

	err = zz13mMerge(r)
	zzverif.Assert("rerun-succeeds", err == nil)
	if err == nil {
		head, _ := ref.GetHead(r.rs, "main")
		c, gerr := objects.GetCommit(r.db, head)
		zzverif.Assert("rerun-head-readable", gerr == nil)
		if gerr == nil {
			zzverif.Assert("rerun-head-carries-the-same-table-as-an-uninterrupted-run", bytes.Equal(c.Table, refCom.Table))
			zzverif.Assert("rerun-head-has-the-same-parents-as-an-uninterrupted-run", len(c.Parents) == 2 && bytes.Equal(c.Parents[0], r.c1) && bytes.Equal(c.Parents[1], r.c2))
		}
	}
	zz13mConsistent("after-rerun-", r.db, r.rs)
	zzverif.Observe("writes", total)
	zzverif.Reach("end")
}
