//go:build verif

package prune

import (
	"bytes"
	"fmt"

	"github.com/wrgl/wrgl/pkg/objects"
	"github.com/wrgl/wrgl/pkg/zzverif"
	"github.com/wrgl/wrgl/pkg/zzverif/zzrepo"
)

// C13c: prune interrupted at any store write.
func zz13Repo() (*zzrepo.ObjStore, *zzrepo.RefStore, [][]byte) {
	db, rs := zzrepo.NewObjStore(), zzrepo.NewRefStore()
	mk := func(n int, tag string) []byte {
		var rows [][]string
		for i := 0; i < n; i++ {
			rows = append(rows, []string{fmt.Sprintf("k%03d", i), tag})
		}
		s, _ := zzrepo.SaveTable(db, []string{"a", "b"}, []uint32{0}, rows, 255)
		return s
	}
	t1, t2, t3 := mk(2, "x"), mk(3, "y"), mk(2, "z")
	c1, _ := zzrepo.SaveCommit(db, t1, "one", 1600000000)
	c2, _ := zzrepo.SaveCommit(db, t2, "two", 1600000100, c1)
	o1, _ := zzrepo.SaveCommit(db, t3, "orphan", 1600000050, c1)
	o2, _ := zzrepo.SaveCommit(db, t1, "orphan2", 1600000060, o1)
	rs.Refs["heads/main"] = c2
	rs.Refs["tags/v1"] = c1
	return db, rs, [][]byte{c1, c2, o1, o2}
}

func Harness_C13_prune() {
	pdb, prs, _ := zz13Repo()
	probe := &zzrepo.Fault{}
	pdb.F, prs.F = probe, probe
	if err := Prune(pdb, prs, nil); err != nil {
		panic(err)
	}
	total := probe.Writes
	db, rs, commits := zz13Repo()
	f := &zzrepo.Fault{At: zzverif.Int("faultAt", 1, total), Kind: zzverif.Choose("faultKind", 2)}
	db.F, rs.F = f, f
	crashed, err := zzrepo.TryCrash(func() error { return Prune(db, rs, nil) })
	zzverif.Assert("fault-surfaces-as-crash-or-error", crashed || err != nil)
	f.Reopen()
	check := func(tag string) {
		for _, sum := range rs.Refs {
			c, err := objects.GetCommit(db, sum)
			zzverif.Assert(tag+"every-ref-resolves-to-a-readable-commit", err == nil)
			// walk the whole history of the ref: parents, tables, blocks must be there
			for err == nil && c != nil {
				t, terr := objects.GetTable(db, c.Table)
				zzverif.Assert(tag+"reachable-commit-keeps-its-table", terr == nil)
				if terr == nil {
					for i, b := range t.Blocks {
						zzverif.Assert(tag+"reachable-table-keeps-its-blocks", objects.BlockExist(db, b) && objects.BlockIndexExist(db, t.BlockIndices[i]))
					}
					zzverif.Assert(tag+"reachable-table-keeps-its-index", objects.TableIndexExist(db, c.Table))
				}
				if len(c.Parents) == 0 {
					break
				}
				zzverif.Assert(tag+"reachable-commit-keeps-its-parents", objects.CommitExist(db, c.Parents[0]))
				c, err = objects.GetCommit(db, c.Parents[0])
			}
		}
	}
	check("after-fault-")
	err = Prune(db, rs, nil)
	zzverif.Assert("rerun-succeeds", err == nil)
	check("after-rerun-")
	zzverif.Assert("rerun-removes-unreachable-commits", !objects.CommitExist(db, commits[2]) && !objects.CommitExist(db, commits[3]))
	// "the same refs pointing at the same tables and history": commits and tables
	same := true
	for _, prefix := range []string{"com/", "tbl/"} {
		for k, v := range pdb.M {
			if len(k) > len(prefix) && k[:len(prefix)] == prefix {
				if got, ok := db.M[k]; !ok || !bytes.Equal(got, v) {
					same = false
				}
			}
		}
		for k := range db.M {
			if len(k) > len(prefix) && k[:len(prefix)] == prefix {
				if _, ok := pdb.M[k]; !ok {
					same = false
				}
			}
		}
	}
	zzverif.Assert("rerun-ends-like-an-uninterrupted-run", same)
	zzverif.Reach("end")
}
