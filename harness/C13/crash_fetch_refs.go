//go:build verif

package fetch

import (
	"bytes"
	"io"

	"github.com/spf13/cobra"
	"github.com/wrgl/wrgl/pkg/conf"
	"github.com/wrgl/wrgl/pkg/zzverif"
	"github.com/wrgl/wrgl/pkg/zzverif/zzrepo"
)

// C13 (fetch, the refs): the real saveFetchedRefs - the last step of `wrgl fetch` -
// with the process dying, or one write failing, at a ref write chosen by the solver,
// after the objects have arrived. The fetch is then repeated: this time nothing
// arrives (everything is there already) and saveFetchedRefs runs again with what
// identifyRefsToFetch would hand it. The refs must end as an uninterrupted fetch
// leaves them: the remote-tracking branch and every remote tag that points at a
// commit the repository has (tags are followed although no refspec covers them).

func zz13rRun(db *zzrepo.ObjStore, rs *zzrepo.RefStore, c0, c1 []byte, arrived [][]byte) error {
	cmd := &cobra.Command{}
	cmd.SetOut(io.Discard)
	cmd.SetErr(io.Discard)
	spec, err := conf.NewRefspec("heads/main", "remotes/origin/main", false, true)
	if err != nil {
		panic(err)
	}
	dstRefs := map[string][]byte{"remotes/origin/main": c1}
	maybeTags := map[string][]byte{"tags/v1": c1, "tags/v0": c0}
	_, err = saveFetchedRefs(cmd, &conf.User{Name: "u", Email: "u@x"}, db, rs, "origin", "url", arrived, []*conf.Refspec{spec}, dstRefs, maybeTags, false)
	return err
}

func Harness_C13_fetch_refs() {
	mk := func() (*zzrepo.ObjStore, *zzrepo.RefStore, []byte, []byte) {
		db, rs := zzrepo.NewObjStore(), zzrepo.NewRefStore()
		t0, _ := zzrepo.SaveTable(db, []string{"a"}, []uint32{0}, [][]string{{"1"}}, 255)
		c0, _ := zzrepo.SaveCommit(db, t0, "zero", 1600000000)
		c1, _ := zzrepo.SaveCommit(db, t0, "one", 1600000100, c0)
		// the repository had fetched c0 before
		rs.Refs["remotes/origin/main"] = c0
		return db, rs, c0, c1
	}
	// uninterrupted reference run
	rdb, rrs, c0, c1 := mk()
	if err := zz13rRun(rdb, rrs, c0, c1, [][]byte{c1}); err != nil {
		panic(err)
	}
	probe := &zzrepo.Fault{}
	pdb, prs, _, _ := mk()
	prs.F = probe
	zz13rRun(pdb, prs, c0, c1, [][]byte{c1})
	total := probe.Writes
	zzverif.Assume(total > 0)

	db, rs, _, _ := mk()
	f := &zzrepo.Fault{At: zzverif.Int("faultAt", 1, total), Kind: zzverif.Choose("faultKind", 2)}
	rs.F = f
	crashed, err := zzrepo.TryCrash(func() error { return zz13rRun(db, rs, c0, c1, [][]byte{c1}) })
	zzverif.Assert("fault-surfaces-as-crash-or-error", crashed || err != nil)
	f.Reopen()
	// the same fetch again: nothing arrives this time
	err = zz13rRun(db, rs, c0, c1, nil)
	zzverif.Assert("rerun-succeeds", err == nil)
	for name, want := range rrs.Refs {
		zzverif.Assert("rerun-ends-with-the-refs-of-an-uninterrupted-fetch", bytes.Equal(rs.Refs[name], want))
	}
	zzverif.Assert("rerun-creates-no-other-ref", len(rs.Refs) == len(rrs.Refs))
	zzverif.Observe("writes", total)
	zzverif.Reach("end")
}
