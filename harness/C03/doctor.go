//go:build verif

package doctor

import (
	"github.com/wrgl/wrgl/pkg/objects"
	"github.com/wrgl/wrgl/pkg/zzverif"
	"github.com/wrgl/wrgl/pkg/zzverif/zzingest"
	"github.com/wrgl/wrgl/pkg/zzverif/zzrepo"
)

// C03: "the repository's own diagnosis reports no issue" for a table produced by
// the real ingest pipeline from symbolic cells (symbolic run size).
func Harness_C03_doctor() {
	nrows, ncols := zzverif.Param("rows", 2), zzverif.Param("cols", 2)
	pks := [][]uint32{nil, {0}, {1}, {0, 1}}
	pk := pks[zzverif.Param("pk", 1)]
	cols := []string{"a", "b", "c"}[:ncols]
	in := make([][]string, nrows)
	for i := range in {
		in[i] = make([]string, ncols)
		for j := range in[i] {
			in[i][j] = zzverif.String("cell", 1)
		}
	}
	runSize := zzverif.Uint64("runSize")
	zzverif.Assume(runSize >= 1)
	db := zzrepo.NewAssocStore()
	sum, err := zzingest.Ingest(db, cols, pk, in, runSize, zzverif.Param("workers", 1))
	zzverif.Assert("ingest-no-error", err == nil)
	if err != nil {
		return
	}
	d := &Doctor{db: db}
	iss := d.diagnoseCommit(&objects.Commit{Table: sum})
	zzverif.Assert("own-diagnosis-reports-no-issue-for-an-ingested-table", iss == nil)
	zzverif.Reach("end")
}
