//go:build verif

package wrgl

import (
	"bytes"
	"context"
	"io"

	"github.com/go-logr/logr"
	"github.com/spf13/cobra"
	"github.com/wrgl/wrgl/cmd/wrgl/utils"
	"github.com/wrgl/wrgl/pkg/conf"
	"github.com/wrgl/wrgl/pkg/objects"
	"github.com/wrgl/wrgl/pkg/zzverif"
	"github.com/wrgl/wrgl/pkg/zzverif/zzrepo"
)

// C10 (merge): the real runMerge (cmd/wrgl) on a symbolic history. `wrgl merge main
// other` with the three fast-forward settings: whatever happens, heads/main may only
// move to a commit that descends from its previous value; when `other` strictly
// descends from main and fast-forward is allowed the branch moves exactly to
// `other`; with --ff-only a merge that is not a fast-forward is rejected and the ref
// keeps its value; every movement is logged with the true old and new value; no
// other ref changes. Histories in which a true (non fast-forward) merge of tables
// would start are cut off by an assumption (that path is C05's).

type zz10mCtx struct {
	context.Context
	k, v any
}

func (c *zz10mCtx) Value(k any) any {
	if k == c.k {
		return c.v
	}
	return c.Context.Value(k)
}

func zz10mWithValue(parent context.Context, key, val any) context.Context {
	return &zz10mCtx{parent, key, val}
}

func Harness_C10_merge_ff() {
	n := zzverif.Param("n", 3)
	g := zz10pBuild(n)
	for i := 0; i < n; i++ {
		g.db.M["tbl/"+string(g.commits[i].Table)] = []byte{1}
	}
	rs := zzrepo.NewRefStore()
	mainIdx := zzverif.Choose("main", n)
	otherIdx := zzverif.Choose("other", n)
	rs.Refs["heads/main"] = g.sums[mainIdx]
	rs.Refs["heads/other"] = g.sums[otherIdx]
	rs.Refs["tags/v1"] = g.sums[mainIdx]
	ffSel := zzverif.Choose("ff", 3)
	ff := []conf.FastForward{conf.FF_Default, conf.FF_Only, conf.FF_Never}[ffSel]

	skew := false
	merge := false
	for i := 0; i < n; i++ {
		np := 0
		for j := 0; j < i; j++ {
			if g.edges[i][j] {
				np++
				if !g.commits[j].Time.Before(g.commits[i].Time) {
					skew = true
				}
			}
		}
		if np > 1 {
			merge = true
		}
	}
	zzverif.Region("parent-not-older-than-child", skew)
	zzverif.Region("a-merge-commit-in-the-history", merge)

	otherDescends := mainIdx != otherIdx && g.reach(otherIdx, mainIdx)
	mainDescends := g.reach(mainIdx, otherIdx)
	// neither descends from the other: a true merge (or a rejection under --ff-only)
	diverged := !otherDescends && !mainDescends
	zzverif.Assume(!diverged || ff == conf.FF_Only)
	// merging an ancestor with --no-ff would start a commit with an unchanged table: allowed, keep
	cmd := &cobra.Command{Use: "merge"}
	cmd.SetOut(io.Discard)
	cmd.SetErr(io.Discard)
	if !zzverif.UnderGosym() {
		utils.SetupProgressBarFlags(cmd.Flags())
		cmd.Flags().Set("no-progress", "true")
	}
	logger := logr.Discard()
	cmd.SetContext(utils.SetLogger(context.Background(), &logger))
	cfg := &conf.Config{User: &conf.User{Name: "u", Email: "u@x"}}
	old := g.sums[mainIdx]
	nlogs := len(rs.Logs["heads/main"])
	err := runMerge(cmd, cfg, g.db, rs, []string{"main", "other"}, false, false, ff, "", 1, "", nil)

	now := rs.Refs["heads/main"]
	zzverif.Assert("other-branch-untouched", bytes.Equal(rs.Refs["heads/other"], g.sums[otherIdx]))
	zzverif.Assert("tag-untouched", bytes.Equal(rs.Refs["tags/v1"], g.sums[mainIdx]))
	moved := !bytes.Equal(now, old)
	if err != nil {
		zzverif.Assert("failed-merge-leaves-the-branch-alone", !moved)
	}
	if diverged {
		zzverif.Assert("non-fast-forward-rejected-under-ff-only", err != nil && !moved)
	}
	if moved {
		// the new value descends from the old one
		idx := -1
		for i := 0; i < n; i++ {
			if bytes.Equal(now, g.sums[i]) {
				idx = i
			}
		}
		if idx >= 0 {
			zzverif.Assert("branch-only-moves-to-a-descendant", g.reach(idx, mainIdx))
		} else {
			// a new merge commit: one of its parents must be the old value
			raw, gerr := g.db.Get(append([]byte("com/"), now...))
			zzverif.Assert("new-head-is-stored", gerr == nil)
			if gerr == nil {
				_, com, rerr := objects.ReadCommitFrom(bytes.NewReader(raw))
				zzverif.Assert("new-head-is-readable", rerr == nil)
				if rerr == nil {
					hasOld := false
					for _, p := range com.Parents {
						if bytes.Equal(p, old) {
							hasOld = true
						}
					}
					zzverif.Assert("merge-commit-has-the-old-head-as-parent", hasOld)
				}
			}
		}
		logs := rs.Logs["heads/main"]
		zzverif.Assert("movement-is-logged-once", len(logs) == nlogs+1)
		if len(logs) == nlogs+1 {
			l := logs[len(logs)-1]
			zzverif.Assert("log-has-true-old-and-new-value", bytes.Equal(l.OldOID, old) && bytes.Equal(l.NewOID, now))
		}
	} else {
		for _, l := range rs.Logs["heads/main"][nlogs:] {
			zzverif.Assert("log-entry-without-movement-has-true-values", bytes.Equal(l.OldOID, old) && bytes.Equal(l.NewOID, old))
		}
	}
	if otherDescends && ff != conf.FF_Never {
		zzverif.Assert("fast-forward-succeeds", err == nil)
		zzverif.Assert("fast-forward-moves-exactly-to-the-other-commit", bytes.Equal(now, g.sums[otherIdx]))
	}
	if mainDescends && ff != conf.FF_Never {
		// other is main or an ancestor of main: nothing to merge, the branch stays
		zzverif.Assert("merging-an-ancestor-keeps-the-branch", !moved)
	}
	zzverif.Reach("end")
}
