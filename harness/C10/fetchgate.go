//go:build verif

package fetch

import (
	"bytes"
	"fmt"
	"io"
	"time"

	"github.com/spf13/cobra"
	"github.com/wrgl/wrgl/pkg/conf"
	"github.com/wrgl/wrgl/pkg/objects"
	"github.com/wrgl/wrgl/pkg/zzverif"
	"github.com/wrgl/wrgl/pkg/zzverif/zzrepo"
)

// C10 (fetch gate): the real saveFetchedRefs over a symbolic history (as in C11),
// 1-2 refs of a symbolic kind with symbolic old and new values, per-refspec and
// global force flags. objects.GetCommit is replaced by a table lookup under gosym.

type zz10Graph struct {
	n       int
	edges   [][]bool
	commits []*objects.Commit
	sums    [][]byte
	db      *zzrepo.ObjStore
}

var zz10G *zz10Graph

func zz10GetCommit(s objects.Store, sum []byte) (*objects.Commit, error) {
	i := int(sum[0]) - 1
	if len(sum) != 16 || i < 0 || i >= len(zz10G.commits) || sum[1] != 0 {
		return nil, objects.ErrKeyNotFound
	}
	c := *zz10G.commits[i]
	c.Sum = sum
	return &c, nil
}

func zz10Build(n int) *zz10Graph {
	g := &zz10Graph{n: n, edges: make([][]bool, n), commits: make([]*objects.Commit, n), sums: make([][]byte, n), db: zzrepo.NewObjStore()}
	native := !zzverif.UnderGosym()
	for i := 0; i < n; i++ {
		g.edges[i] = make([]bool, n)
		ts := zzverif.Int64("t")
		zzverif.Assume(ts >= 1000000000 && ts < 1000001000)
		c := &objects.Commit{Table: make([]byte, 16), AuthorName: "a", AuthorEmail: "e", Message: fmt.Sprintf("c%d", i), Time: time.Unix(ts, 0)}
		for j := 0; j < i; j++ {
			if zzverif.Bool("edge") {
				g.edges[i][j] = true
				c.Parents = append(c.Parents, g.sums[j])
			}
		}
		g.commits[i] = c
		if native {
			buf := bytes.NewBuffer(nil)
			c.WriteTo(buf)
			sum, err := objects.SaveCommit(g.db, buf.Bytes())
			if err != nil {
				panic(err)
			}
			g.sums[i] = sum
		} else {
			s := make([]byte, 16)
			s[0] = byte(i + 1)
			g.sums[i] = s
		}
	}
	zz10G = g
	return g
}

func (g *zz10Graph) reach(from, to int) bool {
	if from == to {
		return true
	}
	for j := 0; j < from; j++ {
		if g.edges[from][j] && g.reach(j, to) {
			return true
		}
	}
	return false
}

type zz10Ref struct {
	dst      string
	isTag    bool
	old, new int // commit index, old = -1: absent
	force    bool
}

func Harness_C10_fetch_gate() {
	n := zzverif.Param("n", 2)
	nrefs := zzverif.Param("refs", 1)
	g := zz10Build(n)
	rs := zzrepo.NewRefStore()
	kinds := []string{"heads/", "tags/", "remotes/origin/", "custom/"}
	var refs []*zz10Ref
	var specs []*conf.Refspec
	dstRefs := map[string][]byte{}
	for i := 0; i < nrefs; i++ {
		k := zzverif.Choose("kind", len(kinds))
		r := &zz10Ref{dst: fmt.Sprintf("%sr%d", kinds[k], i), isTag: k == 1}
		r.old = zzverif.Choose("old", n+1) - 1
		r.new = zzverif.Choose("new", n)
		r.force = zzverif.Bool("refspecForce")
		if r.old >= 0 {
			rs.Refs[r.dst] = g.sums[r.old]
		}
		src := "heads/s" + fmt.Sprint(i)
		if r.isTag {
			src = "tags/s" + fmt.Sprint(i)
		}
		spec, err := conf.NewRefspec(src, r.dst, false, r.force)
		if err != nil {
			panic(err)
		}
		specs = append(specs, spec)
		dstRefs[r.dst] = g.sums[r.new]
		refs = append(refs, r)
	}
	force := zzverif.Bool("globalForce")
	cmd := &cobra.Command{}
	cmd.SetOut(io.Discard)
	cmd.SetErr(io.Discard)
	_, err := saveFetchedRefs(cmd, &conf.User{Name: "u", Email: "u@x"}, g.db, rs, "origin", "url", nil, specs, dstRefs, map[string][]byte{}, force)
	anyRejected := false
	for _, r := range refs {
		cur, getErr := rs.Get(r.dst)
		var want []byte
		forced := force || r.force
		switch {
		case r.old < 0:
			want = g.sums[r.new] // new ref: always created
		case r.old == r.new:
			want = g.sums[r.old]
		case r.isTag:
			if forced {
				want = g.sums[r.new]
			} else {
				want = g.sums[r.old]
				anyRejected = true
			}
		case g.reach(r.new, r.old):
			want = g.sums[r.new] // fast-forward
		case forced:
			want = g.sums[r.new]
		default:
			want = g.sums[r.old]
			anyRejected = true
		}
		zzverif.Assert("ref-present-after-fetch", getErr == nil)
		if !forced && r.old >= 0 {
			if r.isTag {
				zzverif.Assert("existing-tag-never-overwritten-without-force", bytes.Equal(cur, g.sums[r.old]))
			} else {
				ci := -1
				for x := range g.sums {
					if bytes.Equal(g.sums[x], cur) {
						ci = x
					}
				}
				zzverif.Assert("unforced-ref-only-moves-forward", ci >= 0 && g.reach(ci, r.old))
			}
		}
		zzverif.Assert("ref-has-the-expected-value-other-refs-unaffected-by-a-rejection", bytes.Equal(cur, want))
		logs := rs.Logs[r.dst]
		if r.old >= 0 && bytes.Equal(want, g.sums[r.old]) {
			zzverif.Assert("no-log-entry-without-an-update", len(logs) == 0)
		} else {
			zzverif.Assert("every-update-is-logged-once", len(logs) == 1)
			if len(logs) == 1 {
				var oldSum []byte
				if r.old >= 0 {
					oldSum = g.sums[r.old]
				}
				zzverif.Assert("log-has-true-old-and-new-values", bytes.Equal(logs[0].NewOID, want) && bytes.Equal(logs[0].OldOID, oldSum))
			}
		}
	}
	zzverif.Assert("rejection-is-reported", anyRejected == (err != nil))
	zzverif.Reach("end")
}
