//go:build verif

package wrgl

import (
	"bytes"
	"fmt"
	"io"
	"time"

	"github.com/spf13/cobra"
	"github.com/wrgl/wrgl/pkg/conf"
	"github.com/wrgl/wrgl/pkg/objects"
	"github.com/wrgl/wrgl/pkg/zzverif"
	"github.com/wrgl/wrgl/pkg/zzverif/zzrepo"
)

// C10 (push gate): the real identifyUpdates (cmd/wrgl) decides which ref updates
// are offered to the remote. Same symbolic history as the fetch gate.

type zz10pGraph struct {
	n       int
	edges   [][]bool
	commits []*objects.Commit
	sums    [][]byte
	db      *zzrepo.ObjStore
}

var zz10pG *zz10pGraph

func zz10pGetCommit(s objects.Store, sum []byte) (*objects.Commit, error) {
	i := int(sum[0]) - 1
	if len(sum) != 16 || i < 0 || i >= len(zz10pG.commits) || sum[1] != 0 {
		return nil, objects.ErrKeyNotFound
	}
	c := *zz10pG.commits[i]
	c.Sum = sum
	return &c, nil
}

func zz10pBuild(n int) *zz10pGraph {
	g := &zz10pGraph{n: n, edges: make([][]bool, n), commits: make([]*objects.Commit, n), sums: make([][]byte, n), db: zzrepo.NewObjStore()}
	native := !zzverif.UnderGosym()
	for i := 0; i < n; i++ {
		g.edges[i] = make([]bool, n)
		ts := zzverif.Int64("t")
		zzverif.Assume(ts >= 1000000000 && ts < 1000001000)
		c := &objects.Commit{Table: make([]byte, 16), AuthorName: "a", AuthorEmail: "e", Message: fmt.Sprintf("c%d", i), Time: time.Unix(ts, 0)}
		for j := 0; j < i; j++ {
			if zzverif.Bool("edge") {
				g.edges[i][j] = true
				c.Parents = append(c.Parents, g.sums[j])
			}
		}
		g.commits[i] = c
		if native {
			buf := bytes.NewBuffer(nil)
			c.WriteTo(buf)
			sum, err := objects.SaveCommit(g.db, buf.Bytes())
			if err != nil {
				panic(err)
			}
			g.sums[i] = sum
		} else {
			s := make([]byte, 16)
			s[0] = byte(i + 1)
			g.sums[i] = s
		}
	}
	zz10pG = g
	return g
}

func (g *zz10pGraph) reach(from, to int) bool {
	if from == to {
		return true
	}
	for j := 0; j < from; j++ {
		if g.edges[from][j] && g.reach(j, to) {
			return true
		}
	}
	return false
}

func Harness_C10_push_gate() {
	n := zzverif.Param("n", 2)
	nrefs := zzverif.Param("refs", 1)
	g := zz10pBuild(n)
	rs := zzrepo.NewRefStore()
	remote := map[string][]byte{}
	type pref struct {
		dst      string
		isTag    bool
		old, new int
		force    bool
	}
	var refs []*pref
	var specs []*conf.Refspec
	for i := 0; i < nrefs; i++ {
		r := &pref{isTag: zzverif.Bool("isTag")}
		kind := "heads/"
		if r.isTag {
			kind = "tags/"
		}
		r.dst = fmt.Sprintf("%sr%d", kind, i)
		r.old = zzverif.Choose("old", n+1) - 1
		r.new = zzverif.Choose("new", n)
		r.force = zzverif.Bool("refspecForce")
		rs.Refs[fmt.Sprintf("heads/s%d", i)] = g.sums[r.new]
		if r.old >= 0 {
			remote[r.dst] = g.sums[r.old]
		}
		spec, err := conf.NewRefspec(fmt.Sprintf("refs/heads/s%d", i), "refs/"+r.dst, false, r.force)
		if err != nil {
			panic(err)
		}
		specs = append(specs, spec)
		refs = append(refs, r)
	}
	force := zzverif.Bool("globalForce")
	cmd := &cobra.Command{}
	cmd.SetOut(io.Discard)
	cmd.SetErr(io.Discard)
	upToDate, updates, err := identifyUpdates(cmd, g.db, rs, specs, remote, force)
	zzverif.Assert("identify-updates-no-error", err == nil)
	if err != nil {
		return
	}
	for i, r := range refs {
		var u *receivePackUpdate
		cnt := 0
		for _, x := range updates {
			if x.Dst == r.dst {
				u = x
				cnt++
			}
		}
		zzverif.Assert("at-most-one-update-per-ref", cnt <= 1)
		forced := force || r.force
		switch {
		case r.old >= 0 && r.old == r.new:
			zzverif.Assert("equal-ref-is-up-to-date-not-updated", u == nil)
			found := false
			for _, s := range upToDate {
				if s == specs[i] {
					found = true
				}
			}
			zzverif.Assert("equal-ref-reported-up-to-date", found)
		case r.old < 0:
			zzverif.Assert("new-ref-is-offered", u != nil && u.OldSum == nil && bytes.Equal(u.Sum, g.sums[r.new]))
		case r.isTag && !forced:
			zzverif.Assert("existing-tag-never-overwritten-without-force", u == nil)
		case !r.isTag && !forced && !g.reach(r.new, r.old):
			zzverif.Assert("non-fast-forward-rejected-without-force", u == nil)
		default:
			zzverif.Assert("allowed-update-is-offered-with-true-old-and-new", u != nil && bytes.Equal(u.OldSum, g.sums[r.old]) && bytes.Equal(u.Sum, g.sums[r.new]))
			if u != nil && !r.isTag && g.reach(r.new, r.old) {
				zzverif.Assert("fast-forward-is-not-marked-forced", !u.Force)
			}
		}
	}
	zzverif.Reach("end")
}
