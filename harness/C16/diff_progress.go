//go:build verif

package diff

import (
	"fmt"
	"time"

	"github.com/go-logr/logr"
	"github.com/wrgl/wrgl/pkg/objects"
	"github.com/wrgl/wrgl/pkg/progress"
	"github.com/wrgl/wrgl/pkg/zzverif"
	"github.com/wrgl/wrgl/pkg/zzverif/zzrepo"
)

// C16 (differ + progress tracker): DiffTables with a progress interval, consumed the
// way `wrgl diff` consumes it (collectDiffObjects: Start the tracker, select over the
// progress channel and the diff channel until the diff channel closes, then Stop).
// Time is not modelled: a tick of the tracker's Ticker can fall between any two steps
// (engine option ticker_ticks), so the obligation covers a tick before the first diff
// event, between events, and after the consumer stopped listening. The caller must get
// the events of a tick-free run, must not hang in Stop, and the goroutines (differ,
// tracker, consumer) must not race on the tracker's counters.

func zz16ProgressTables(n int) (objects.Store, *objects.Table, *objects.Table, [][]string, [][]string) {
	db := zzrepo.NewLockedStore()
	mk := func(tag string) (*objects.Table, [][]string) {
		var rows [][]string
		for i := 0; i < n; i++ {
			v := "v"
			if i%3 == 1 {
				v = tag
			}
			rows = append(rows, []string{fmt.Sprintf("k%04d", i), v})
		}
		sum, tbl := zzrepo.SaveTable(db, []string{"a", "b"}, []uint32{0}, rows, 255)
		idx, err := objects.GetTableIndex(db, sum)
		if err != nil {
			panic(err)
		}
		return tbl, idx
	}
	t1, i1 := mk("x")
	t2, i2 := mk("y")
	return db, t1, t2, i1, i2
}

func zz16Consume(diffChan <-chan *objects.Diff, pt progress.Tracker) (events, ticks int) {
	progChan := pt.Start()
	defer pt.Stop()
	for {
		select {
		case <-progChan:
			ticks++
		case _, ok := <-diffChan:
			if !ok {
				return
			}
			events++
		}
	}
}

func Harness_C16_diff_progress() {
	n := zzverif.Param("rows", 6)
	db, t1, t2, i1, i2 := zz16ProgressTables(n)
	want := 0
	for i := 0; i < n; i++ {
		if i%3 == 1 {
			want++
		}
	}
	errChan := make(chan error, 10)
	// natively the interval is short enough for ticks to fall inside the run; under the
	// engine the interval is irrelevant (ticker_ticks)
	diffChan, pt := DiffTables(db, db, t1, t2, i1, i2, errChan, logr.Discard(), WithProgressInterval(time.Microsecond))
	events, ticks := zz16Consume(diffChan, pt)
	close(errChan)
	_, failed := <-errChan
	zzverif.Assert("diff-with-progress-reports-no-error", !failed)
	zzverif.Assert("diff-with-progress-gives-the-events-of-a-tick-free-run", events == want)
	zzverif.Observe("events", events)
	_ = ticks
	zzverif.Reach("end")
}
