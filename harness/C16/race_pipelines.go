//go:build verif

package merge

import (
	"context"
	"fmt"

	"github.com/go-logr/logr"
	"github.com/wrgl/wrgl/pkg/diff"
	"github.com/wrgl/wrgl/pkg/objects"
	"github.com/wrgl/wrgl/pkg/zzverif"
	"github.com/wrgl/wrgl/pkg/zzverif/zzrepo"
)

// C16 for the differ and merger goroutines (and the sorter's producer goroutine
// underneath): a concrete 3-way merge; the race analysis runs over the recorded
// skeleton, and the result is compared with the expected merged rows.
func Harness_C16_merge_pipeline() {
	db := zzrepo.NewLockedStore()
	mk := func(edit func(i int, r []string)) ([]byte, *objects.Table) {
		var rows [][]string
		for i := 0; i < zzverif.Param("rows", 4); i++ {
			r := []string{fmt.Sprintf("k%02d", i), fmt.Sprintf("b%d", i), fmt.Sprintf("c%d", i)}
			if edit != nil {
				edit(i, r)
			}
			rows = append(rows, r)
		}
		return zzrepo.SaveTable(db, []string{"a", "b", "c"}, []uint32{0}, rows, 255)
	}
	baseSum, baseT := mk(nil)
	s1, t1 := mk(func(i int, r []string) {
		if i == 1 {
			r[1] = "B1"
		}
	})
	s2, t2 := mk(func(i int, r []string) {
		if i == 2 {
			r[2] = "C2"
		}
	})
	collector, cleanup, err := CreateRowCollector(db, baseT)
	if err != nil {
		panic(err)
	}
	buf, err := diff.BlockBufferWithSingleStore(db, []*objects.Table{baseT, t1, t2})
	if err != nil {
		panic(err)
	}
	merger, err := NewMerger(db, collector, buf, 0, baseT, []*objects.Table{t1, t2}, baseSum, [][]byte{s1, s2}, logr.Discard())
	if err != nil {
		panic(err)
	}
	ch, err := merger.Start()
	zzverif.Assert("merge-starts", err == nil)
	if err != nil {
		return
	}
	conflicts := 0
	for m := range ch {
		if m.ColDiff == nil {
			conflicts++
		}
	}
	zzverif.Assert("no-conflict", conflicts == 0 && merger.Error() == nil)
	rc, err := merger.SortedRows(context.Background(), nil)
	zzverif.Assert("sorted-rows", err == nil)
	if err != nil {
		return
	}
	n := 0
	ok := true
	for blk := range rc {
		for _, row := range blk.Rows {
			want := []string{fmt.Sprintf("k%02d", n), fmt.Sprintf("b%d", n), fmt.Sprintf("c%d", n)}
			if n == 1 {
				want[1] = "B1"
			}
			if n == 2 {
				want[2] = "C2"
			}
			if len(row) != 3 || row[0] != want[0] || row[1] != want[1] || row[2] != want[2] {
				ok = false
			}
			n++
		}
	}
	zzverif.Assert("merge-outcome-equals-the-sequential-result", ok && n == zzverif.Param("rows", 4))
	cleanup()
	zzverif.Reach("end")
}
