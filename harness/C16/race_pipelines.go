//go:build verif

package merge

import (
	"context"
	"fmt"

	"github.com/go-logr/logr"
	"github.com/wrgl/wrgl/pkg/diff"
	"github.com/wrgl/wrgl/pkg/objects"
	"github.com/wrgl/wrgl/pkg/zzverif"
	"github.com/wrgl/wrgl/pkg/zzverif/zzrepo"
)

// C16 for the differ and merger goroutines (and the sorter's producer goroutine
// underneath): a concrete 3-way merge; the race analysis runs over the recorded
// skeleton, and the result is compared with the expected merged rows.
func Harness_C16_merge_pipeline() {
	db := zzrepo.NewLockedStore()
	mk := func(edit func(i int, r []string)) ([]byte, *objects.Table) {
		var rows [][]string
		for i := 0; i < zzverif.Param("rows", 4); i++ {
			r := []string{fmt.Sprintf("k%02d", i), fmt.Sprintf("b%d", i), fmt.Sprintf("c%d", i)}
			if edit != nil {
				edit(i, r)
			}
			rows = append(rows, r)
		}
		return zzrepo.SaveTable(db, []string{"a", "b", "c"}, []uint32{0}, rows, 255)
	}
	baseSum, baseT := mk(nil)
	s1, t1 := mk(func(i int, r []string) {
		if i == 1 {
			r[1] = "B1"
		}
	})
	s2, t2 := mk(func(i int, r []string) {
		if i == 2 {
			r[2] = "C2"
		}
	})
	collector, cleanup, err := CreateRowCollector(db, baseT)
	if err != nil {
		panic(err)
	}
	buf, err := diff.BlockBufferWithSingleStore(db, []*objects.Table{baseT, t1, t2})
	if err != nil {
		panic(err)
	}
	merger, err := NewMerger(db, collector, buf, 0, baseT, []*objects.Table{t1, t2}, baseSum, [][]byte{s1, s2}, logr.Discard())
	if err != nil {
		panic(err)
	}
	ch, err := merger.Start()
	zzverif.Assert("merge-starts", err == nil)
	if err != nil {
		return
	}
	conflicts := 0
	for m := range ch {
		if m.ColDiff == nil {
			conflicts++
		}
	}
	zzverif.Assert("no-conflict", conflicts == 0 && merger.Error() == nil)
	rc, err := merger.SortedRows(context.Background(), nil)
	zzverif.Assert("sorted-rows", err == nil)
	if err != nil {
		return
	}
	n := 0
	ok := true
	for blk := range rc {
		for _, row := range blk.Rows {
			want := []string{fmt.Sprintf("k%02d", n), fmt.Sprintf("b%d", n), fmt.Sprintf("c%d", n)}
			if n == 1 {
				want[1] = "B1"
			}
			if n == 2 {
				want[2] = "C2"
			}
			if len(row) != 3 || row[0] != want[0] || row[1] != want[1] || row[2] != want[2] {
				ok = false
			}
			n++
		}
	}
	zzverif.Assert("merge-outcome-equals-the-sequential-result", ok && n == zzverif.Param("rows", 4))
	cleanup()
	zzverif.Reach("end")
}

// More than two branches merged at once: k differ goroutines feed mergeTables through
// reflect.Select, and they finish at different times. Every differ reports each row of
// its table (the merger asks for unchanged rows too), so a branch finishes later the
// more rows it has: the branches ADD disjoint rows - none, one, many - and these sizes
// are assigned to the branch positions by the permutation `order`, so that the differs
// close in every relative order while another one is still sending. The merged table
// must be the base plus every added row.
func Harness_C16_merge_many_branches() {
	db := zzrepo.NewLockedStore()
	k := zzverif.Param("branches", 3)
	n := zzverif.Param("rows", 4)
	many := zzverif.Param("many", 6)
	order := zzverif.Param("order", 0)
	perm := [][]int{{0, 1, 2}, {0, 2, 1}, {1, 0, 2}, {1, 2, 0}, {2, 0, 1}, {2, 1, 0}}[order%6]
	extra := make([]int, k)
	for j := 0; j < k; j++ {
		switch {
		case j >= 3:
			extra[j] = 2
		case perm[j] == 1:
			extra[j] = 1
		case perm[j] == 2:
			extra[j] = many
		}
	}
	var want [][]string
	mk := func(br int) ([]byte, *objects.Table) {
		var rows [][]string
		for i := 0; i < n; i++ {
			rows = append(rows, []string{fmt.Sprintf("k%02d", i), fmt.Sprintf("b%d", i), fmt.Sprintf("c%d", i)})
		}
		if br >= 0 {
			for x := 0; x < extra[br]; x++ {
				rows = append(rows, []string{fmt.Sprintf("x%d-%02d", br, x), fmt.Sprintf("B%d", br), fmt.Sprintf("C%d", x)})
			}
		}
		return zzrepo.SaveTable(db, []string{"a", "b", "c"}, []uint32{0}, rows, 255)
	}
	baseSum, baseT := mk(-1)
	for i := 0; i < n; i++ {
		want = append(want, []string{fmt.Sprintf("k%02d", i), fmt.Sprintf("b%d", i), fmt.Sprintf("c%d", i)})
	}
	tables := []*objects.Table{baseT}
	var others []*objects.Table
	var sums [][]byte
	for j := 0; j < k; j++ {
		s, t := mk(j)
		others = append(others, t)
		sums = append(sums, s)
		tables = append(tables, t)
		for x := 0; x < extra[j]; x++ {
			want = append(want, []string{fmt.Sprintf("x%d-%02d", j, x), fmt.Sprintf("B%d", j), fmt.Sprintf("C%d", x)})
		}
	}
	collector, cleanup, err := CreateRowCollector(db, baseT)
	if err != nil {
		panic(err)
	}
	buf, err := diff.BlockBufferWithSingleStore(db, tables)
	if err != nil {
		panic(err)
	}
	merger, err := NewMerger(db, collector, buf, 0, baseT, others, baseSum, sums, logr.Discard())
	if err != nil {
		panic(err)
	}
	ch, err := merger.Start()
	zzverif.Assert("merge-starts", err == nil)
	if err != nil {
		return
	}
	conflicts := 0
	for m := range ch {
		if m.ColDiff == nil {
			conflicts++
		}
	}
	zzverif.Assert("no-conflict", conflicts == 0 && merger.Error() == nil)
	rc, err := merger.SortedRows(context.Background(), nil)
	zzverif.Assert("sorted-rows", err == nil)
	if err != nil {
		return
	}
	cnt := 0
	ok := true
	for blk := range rc {
		for _, row := range blk.Rows {
			if cnt >= len(want) {
				ok = false
				break
			}
			w := want[cnt]
			if len(row) != 3 || row[0] != w[0] || row[1] != w[1] || row[2] != w[2] {
				ok = false
			}
			cnt++
		}
	}
	zzverif.Assert("merge-of-many-branches-equals-the-sequential-result", ok && cnt == len(want))
	cleanup()
	zzverif.Reach("end")
}
