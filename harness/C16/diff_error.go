//go:build verif

package diff

import (
	"fmt"

	"github.com/go-logr/logr"
	"github.com/wrgl/wrgl/pkg/objects"
	"github.com/wrgl/wrgl/pkg/zzverif"
	"github.com/wrgl/wrgl/pkg/zzverif/zzrepo"
)

// C16 (differ): an error inside the differ goroutine - the store fails at a read chosen
// by the solver - reaches a caller that consumes the way `wrgl diff` does: drain the
// diff channel, close the error channel, read it. Under every order in which the
// scheduler can resume the goroutines the error is reported, nothing is sent on a
// closed channel, and the caller is never left hanging.

type zz16FailStore struct {
	objects.Store
	n, failAt int
}

func (s *zz16FailStore) Get(k []byte) ([]byte, error) {
	s.n++
	if s.failAt != 0 && s.n >= s.failAt {
		return nil, fmt.Errorf("injected read error")
	}
	return s.Store.Get(k)
}

func Harness_C16_diff_error() {
	n := zzverif.Param("rows", 300)
	db := zzrepo.NewLockedStore()
	mk := func(tag string) ([]byte, *objects.Table, [][]string) {
		var rows [][]string
		for i := 0; i < n; i++ {
			v := "v"
			if i%97 == 5 {
				v = tag
			}
			rows = append(rows, []string{fmt.Sprintf("k%04d", i), v})
		}
		sum, tbl := zzrepo.SaveTable(db, []string{"a", "b"}, []uint32{0}, rows, 255)
		idx, err := objects.GetTableIndex(db, sum)
		if err != nil {
			panic(err)
		}
		return sum, tbl, idx
	}
	_, t1, i1 := mk("x")
	_, t2, i2 := mk("y")
	// count the reads of an undisturbed run
	probe := &zz16FailStore{Store: db}
	perr := make(chan error, 10)
	pch, _ := DiffTables(probe, probe, t1, t2, i1, i2, perr, logr.Discard())
	for range pch {
	}
	total := probe.n
	zzverif.Assume(total > 0)

	fs := &zz16FailStore{Store: db, failAt: zzverif.Int("failAt", 1, total)}
	errChan := make(chan error, 10)
	diffChan, _ := DiffTables(fs, fs, t1, t2, i1, i2, errChan, logr.Discard())
	got := 0
	for range diffChan {
		got++
	}
	close(errChan)
	err, ok := <-errChan
	zzverif.Assert("differ-error-is-reported-to-the-caller", ok && err != nil)
	zzverif.Observe("diffs-before-error", got)
	zzverif.Reach("end")
}
