//go:build verif

package ingest

import (
	"fmt"

	"github.com/go-logr/logr"
	"github.com/wrgl/wrgl/pkg/objects"
	"github.com/wrgl/wrgl/pkg/sorter"
	"github.com/wrgl/wrgl/pkg/zzverif"
	"github.com/wrgl/wrgl/pkg/zzverif/zzrepo"
)

// C16: the ingest worker pool with 2 real workers (numWorkers = 4; the code
// subtracts 2) on a table of 2-3 blocks. The engine records the event skeleton of
// one cooperative execution and decides, with one order variable per event, whether
// two conflicting accesses of different goroutines can be adjacent (data race).
// The sequential-result oracle is checked on the same execution; an injected store
// error in one worker must come back to the caller (no hang).

func zz16Rows(n int) [][]string {
	rows := make([][]string, n)
	for i := range rows {
		rows[i] = []string{fmt.Sprintf("k%05d", (i*7919)%n), fmt.Sprintf("v%d", i)}
	}
	return rows
}

func zz16Ingest(db objects.Store, rows [][]string, workers int) ([]byte, error) {
	s, err := sorter.NewSorter(sorter.WithRunSize(1 << 40))
	if err != nil {
		panic(err)
	}
	s.Columns = []string{"a", "b"}
	s.PK = []uint32{0}
	for _, r := range rows {
		s.AddRow(r)
	}
	return NewInserter(db, s, logr.Discard(), WithNumWorkers(workers)).IngestTableFromSorter(s.Columns, s.PK)
}

func Harness_C16_ingest_workers() {
	n := zzverif.Param("rows", 300)
	workers := zzverif.Param("workers", 4)
	rows := zz16Rows(n)
	zzverif.Region("more-than-one-worker", workers-2 > 1)
	ref := zzrepo.NewLockedStore()
	refSum, err := zz16Ingest(ref, rows, 1)
	if err != nil {
		panic(err)
	}
	db := zzrepo.NewLockedStore() // the store itself is safe for concurrent use (as badger is)
	sum, err := zz16Ingest(db, rows, workers)
	zzverif.Assert("concurrent-ingest-succeeds", err == nil)
	if err != nil {
		return
	}
	zzverif.Assert("concurrent-ingest-gives-the-sequential-table", string(sum) == string(refSum))
	tbl, err := objects.GetTable(db, sum)
	zzverif.Assert("table-readable", err == nil)
	if err == nil {
		zzverif.Assert("no-block-or-row-lost-or-duplicated", int(tbl.RowsCount) == n && len(tbl.Blocks) == (n+254)/255)
	}
	if zzverif.Param("structure", 0) == 1 {
		zzrepo.CheckStructure(db, sum)
	}
	zzverif.Reach("end")
}

// an error in one worker is reported to the caller instead of hanging it
func Harness_C16_ingest_worker_error() {
	n := zzverif.Param("rows", 300)
	workers := zzverif.Param("workers", 4)
	rows := zz16Rows(n)
	probe := &zzrepo.Fault{}
	pdb := zzrepo.NewLockedStore()
	pdb.S.F = probe
	if _, err := zz16Ingest(pdb, rows, workers); err != nil {
		panic(err)
	}
	db := zzrepo.NewLockedStore()
	// kind 0: the store fails persistently from that write on (e.g. disk full), so every
	// worker runs into an error; kind 1: a single failing write
	db.S.F = &zzrepo.Fault{At: zzverif.Int("faultAt", 1, probe.Writes), Kind: zzverif.Choose("faultKind", 2)}
	_, err := zz16Ingest(db, rows, workers)
	zzverif.Assert("worker-error-is-reported-to-the-caller", err != nil)
	zzverif.Reach("end")
}
