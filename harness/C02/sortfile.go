//go:build verif

package sorter

import (
	"bytes"
	"io"

	"github.com/wrgl/wrgl/pkg/zzverif"
)

// C02 / C01 through the CSV entry point: the real Sorter.SortFile (encoding/csv
// reader, header row, key lookup by column name, AddRow with spilling) on a CSV text
// whose cells are symbolic lower-case letters, sorted twice with two independent
// symbolic run sizes. Both runs must give the same rows in key order - the table does
// not depend on the memory limit - and they are the input rows. The data profiler
// (float statistics) is switched off after SortFile; it is outside the claim.
func Harness_C02_sortfile() {
	nrows := zzverif.Param("rows", 3)
	keyCol := zzverif.Param("keycol", 1) // which of the two columns is the key
	var csv []byte
	csv = append(csv, []byte("a,b\n")...)
	in := make([][]string, nrows)
	for i := 0; i < nrows; i++ {
		c0, c1 := zzverif.Byte("cell"), zzverif.Byte("cell")
		zzverif.Assume(c0 >= 'a' && c0 <= 'z' && c1 >= 'a' && c1 <= 'z')
		csv = append(csv, c0, ',', c1, '\n')
		in[i] = []string{string([]byte{c0}), string([]byte{c1})}
	}
	for i := range in {
		for j := 0; j < i; j++ {
			zzverif.Assume(in[i][keyCol] != in[j][keyCol]) // keys unique
		}
	}
	pk := []string{[]string{"a", "b"}[keyCol]}
	// delim=1: the second run reads the same table from a file that uses ';' as delimiter
	csv2 := bytes.ReplaceAll(csv, []byte(","), []byte(";"))
	run := func(name string) [][]string {
		rs := zzverif.Uint64(name)
		zzverif.Assume(rs >= 1)
		opts := []SorterOption{WithRunSize(rs)}
		text := csv
		if name == "runSize2" && zzverif.Param("delim", 0) == 1 {
			opts = append(opts, WithDelimiter(';'))
			text = csv2
		}
		s, err := NewSorter(opts...)
		if err != nil {
			panic(err)
		}
		err = s.SortFile(io.NopCloser(bytes.NewReader(text)), pk)
		zzverif.Assert("csv-accepted", err == nil)
		if err != nil {
			return nil
		}
		zzverif.Assert("key-column-found-by-name", len(s.PK) == 1 && int(s.PK[0]) == keyCol)
		s.profiler = nil
		out := zzBlocks(s, zzCfg{nrows: nrows, ncols: 2, pk: keyCol + 1, removed: -1, removed2: -1})
		s.Close()
		return out
	}
	a := run("runSize1")
	b := run("runSize2")
	zzverif.Assert("every-row-stored-once", len(a) == nrows && len(b) == nrows)
	if len(a) != nrows || len(b) != nrows {
		return
	}
	for i := 0; i < nrows; i++ {
		zzverif.Assert("same-rows-whatever-the-memory-limit", zzRowEq(a[i], b[i]))
		if i > 0 {
			zzverif.Assert("rows-in-key-order", a[i-1][keyCol] < a[i][keyCol])
		}
		found := false
		for _, r := range in {
			found = zzverif.Or(found, zzRowEq(r, a[i]))
		}
		zzverif.Assert("stored-row-is-an-input-row", found)
	}
	zzverif.Reach("end")
}

// C01 through the CSV entry point: cells of arbitrary bytes (quotes, commas, newlines,
// non-UTF8) are written the RFC 4180 way (every field quoted, quotes doubled - what a
// well-formed CSV with such a cell looks like) and read by SortFile; the rows stored
// must be the cells, byte for byte.
func Harness_C01_csv_content() {
	nrows := zzverif.Param("rows", 2)
	cellLen := zzverif.Param("cellLen", 1)
	in := make([][]string, nrows)
	// RFC 4180 writer of the harness: every field quoted, quotes doubled, records end in LF
	buf := bytes.NewBuffer(nil)
	writeRec := func(rec []string) {
		for k, f := range rec {
			if k > 0 {
				buf.WriteByte(',')
			}
			buf.WriteByte('"')
			for x := 0; x < len(f); x++ {
				if f[x] == '"' {
					buf.WriteByte('"')
				}
				buf.WriteByte(f[x])
			}
			buf.WriteByte('"')
		}
		buf.WriteByte('\n')
	}
	writeRec([]string{"a", "b"})
	cr := false
	for i := 0; i < nrows; i++ {
		k := string([]byte{byte('a' + i)}) // concrete distinct keys
		v := zzverif.String("cell", cellLen)
		for x := 0; x+1 < len(v); x++ {
			cr = zzverif.Or(cr, zzverif.And(v[x] == '\r', v[x+1] == '\n'))
		}
		in[i] = []string{k, v}
		writeRec(in[i])
	}
	zzverif.Region("cell-containing-CR-LF", cr)
	s, err := NewSorter(WithRunSize(1 << 30))
	if err != nil {
		panic(err)
	}
	err = s.SortFile(io.NopCloser(bytes.NewReader(buf.Bytes())), []string{"a"})
	zzverif.Assert("well-formed-csv-accepted", err == nil)
	if err != nil {
		return
	}
	s.profiler = nil
	out := zzBlocks(s, zzCfg{nrows: nrows, ncols: 2, pk: 1, removed: -1, removed2: -1})
	s.Close()
	zzverif.Assert("every-row-stored-once", len(out) == nrows)
	if len(out) != nrows {
		return
	}
	for i := 0; i < nrows; i++ {
		zzverif.Assert("cell-stored-byte-for-byte", len(out[i]) == 2 && out[i][0] == in[i][0] && out[i][1] == in[i][1])
	}
	zzverif.Reach("end")
}
