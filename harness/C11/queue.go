//go:build verif

package ref

import (
	"bytes"
	"io"

	"github.com/wrgl/wrgl/pkg/zzverif"
)

// C11 (the walk's frontier): CommitsQueue itself, the time-ordered queue with a seen
// set that every history walk and ancestry query pops from. n parentless commits
// with symbolic timestamps are inserted one by one (so that every insertion position
// occurs at every growth step of the backing arrays), then popped: every commit comes
// out exactly once, newest first; a second Insert of a seen commit changes nothing.
func Harness_C11_queue() {
	n := zzverif.Param("n", 6)
	gg := zzBuildGraphNoEdges(n)
	// initial: how many commits the queue is created from (the ref tips of a walk); the
	// others are inserted one by one
	k0 := zzverif.Param("initial", 1)
	initial := append([][]byte{}, gg.sums[:k0]...)
	// two refs may point at the same commit: the tips a walk starts from can repeat
	if zzverif.Param("dupInitial", 0) == 1 {
		initial = append(initial, gg.sums[0])
		initial = append([][]byte{gg.sums[k0-1]}, initial...)
	}
	q, err := NewCommitsQueue(gg.db, initial)
	zzverif.Assert("queue-created", err == nil)
	if err != nil {
		return
	}
	zzverif.Assert("queue-holds-the-initial-commits", q.Len() == k0)
	for i := k0; i < n; i++ {
		zzverif.Assert("insert-no-error", q.Insert(gg.sums[i]) == nil)
		if zzverif.Param("reinsert", 0) == 1 {
			zzverif.Assert("reinsert-no-error", q.Insert(gg.sums[i/2]) == nil)
		}
		zzverif.Assert("queue-length-counts-every-commit-once", q.Len() == i+1)
	}
	seen := make([]int, n)
	var prev int64
	for k := 0; k < n; k++ {
		sum, c, err := q.Pop()
		zzverif.Assert("pop-yields-a-commit-while-some-are-queued", err == nil && c != nil)
		if err != nil || c == nil {
			return
		}
		i := gg.idx(sum)
		zzverif.Assert("popped-commit-is-one-of-the-inserted", i >= 0)
		if i < 0 {
			return
		}
		seen[i]++
		zzverif.Assert("popped-sum-belongs-to-the-popped-commit", bytes.Equal(c.Sum, sum) || c.Time.Equal(gg.commits[i].Time))
		t := gg.commits[i].Time.Unix()
		if k > 0 {
			zzverif.Assert("popped-newest-first", t <= prev)
		}
		prev = t
	}
	for i := 0; i < n; i++ {
		zzverif.Assert("every-inserted-commit-popped-exactly-once", seen[i] == 1)
	}
	_, _, err = q.Pop()
	zzverif.Assert("queue-empty-at-the-end", err == io.EOF)
	zzverif.Reach("end")
}
