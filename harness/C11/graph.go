//go:build verif

package ref

import (
	"bytes"
	"errors"
	"fmt"
	"io"
	"time"

	"github.com/wrgl/wrgl/pkg/objects"
	objmock "github.com/wrgl/wrgl/pkg/objects/mock"
	"github.com/wrgl/wrgl/pkg/zzverif"
)

// C11: ancestry queries and merge-base selection vs. graph reachability.
//
// History: commits 0..n-1; a parent edge i->j (j<i) exists iff a symbolic bool
// says so (forked lazily); commit timestamps are 64-bit solver variables (equal,
// reversed and skewed timestamps are all included; they are confined to a
// 1000-second window so that the native replay can encode them in the 10-digit
// commit time format).
//
// Under gosym objects.GetCommit is replaced by zzGetCommit (a table lookup), so
// commits need no textual encoding and their sums stay concrete while their
// times stay symbolic. Natively (replay) the same history is saved into an
// objmock store through the real SaveCommit and the real GetCommit is used.

type zzGraph struct {
	n       int
	edges   [][]bool
	commits []*objects.Commit
	sums    [][]byte
	db      objects.Store
}

var zzG *zzGraph

func zzFakeSum(i int) []byte {
	b := make([]byte, 16)
	b[0] = byte(i + 1)
	return b
}

// zzGetCommit replaces objects.GetCommit under gosym.
func zzGetCommit(s objects.Store, sum []byte) (*objects.Commit, error) {
	i := int(sum[0]) - 1
	if i < 0 || i >= len(zzG.commits) {
		return nil, objects.ErrKeyNotFound
	}
	c := *zzG.commits[i]
	c.Sum = sum
	return &c, nil
}

func zzBuildGraph(n int) *zzGraph {
	g := &zzGraph{n: n, edges: make([][]bool, n), commits: make([]*objects.Commit, n), sums: make([][]byte, n)}
	native := !zzverif.UnderGosym()
	if native {
		g.db = objmock.NewStore()
	}
	for i := 0; i < n; i++ {
		g.edges[i] = make([]bool, n)
		ts := zzverif.Int64("t")
		zzverif.Assume(ts >= 1000000000 && ts < 1000001000)
		c := &objects.Commit{Table: make([]byte, 16), AuthorName: "a", AuthorEmail: "e", Message: fmt.Sprintf("c%d", i), Time: time.Unix(ts, 0)}
		for j := 0; j < i; j++ {
			if zzverif.Bool("edge") {
				g.edges[i][j] = true
				c.Parents = append(c.Parents, g.sums[j])
				if zzverif.Param("mono", 0) == 1 {
					// reduced space: a child is strictly newer than its parents
					zzverif.Assume(c.Time.After(g.commits[j].Time))
				}
			}
		}
		g.commits[i] = c
		if native {
			buf := bytes.NewBuffer(nil)
			c.WriteTo(buf)
			sum, err := objects.SaveCommit(g.db, buf.Bytes())
			if err != nil {
				panic(err)
			}
			g.sums[i] = sum
		} else {
			g.sums[i] = zzFakeSum(i)
		}
	}
	zzG = g
	return g
}

// zzBuildGraphNoEdges: n parentless commits with symbolic timestamps.
func zzBuildGraphNoEdges(n int) *zzGraph {
	g := &zzGraph{n: n, edges: make([][]bool, n), commits: make([]*objects.Commit, n), sums: make([][]byte, n)}
	native := !zzverif.UnderGosym()
	if native {
		g.db = objmock.NewStore()
	}
	for i := 0; i < n; i++ {
		g.edges[i] = make([]bool, n)
		ts := zzverif.Int64("t")
		zzverif.Assume(ts >= 1000000000 && ts < 1000001000)
		c := &objects.Commit{Table: make([]byte, 16), AuthorName: "a", AuthorEmail: "e", Message: fmt.Sprintf("c%d", i), Time: time.Unix(ts, 0)}
		g.commits[i] = c
		if native {
			buf := bytes.NewBuffer(nil)
			c.WriteTo(buf)
			sum, err := objects.SaveCommit(g.db, buf.Bytes())
			if err != nil {
				panic(err)
			}
			g.sums[i] = sum
		} else {
			g.sums[i] = zzFakeSum(i)
		}
	}
	zzG = g
	return g
}

func (g *zzGraph) idx(sum []byte) int {
	for i, s := range g.sums {
		if bytes.Equal(s, sum) {
			return i
		}
	}
	return -1
}

func (g *zzGraph) reach(from, to int) bool {
	if from == to {
		return true
	}
	for j := 0; j < from; j++ {
		if g.edges[from][j] && g.reach(j, to) {
			return true
		}
	}
	return false
}

func Harness_C11_ancestor() {
	n := zzverif.Param("n", 3)
	g := zzBuildGraph(n)
	a := zzverif.Choose("a", n)
	b := zzverif.Choose("b", n)
	ok, err := IsAncestorOf(g.db, g.sums[a], g.sums[b])
	zzverif.Assert("ancestor-no-error", err == nil)
	zzverif.Assert("ancestor-iff-reachable", ok == g.reach(b, a))
	zzverif.Observe("ancestor", a, b, ok)
	zzverif.Reach("end")
}

func Harness_C11_walk() {
	n := zzverif.Param("n", 3)
	g := zzBuildGraph(n)
	start := zzverif.Choose("start", n)
	tips := [][]byte{g.sums[start]}
	// tips > 1: the walk starts from several ref tips, which may coincide (two refs on
	// one commit) or be ancestors of one another
	starts := []int{start}
	for t := 1; t < zzverif.Param("tips", 1); t++ {
		s2 := zzverif.Choose("start2", n)
		starts = append(starts, s2)
		tips = append(tips, g.sums[s2])
	}
	q, err := NewCommitsQueue(g.db, tips)
	zzverif.Assert("walk-queue-created", err == nil)
	if err != nil {
		return
	}
	visits := make([]int, n)
	for k := 0; k <= 2*n+1; k++ {
		sum, _, err := q.PopInsertParents()
		if errors.Is(err, io.EOF) {
			break
		}
		zzverif.Assert("walk-no-error", err == nil)
		if err != nil {
			return
		}
		i := g.idx(sum)
		zzverif.Assert("walk-known-commit", i >= 0)
		if i >= 0 {
			visits[i]++
		}
	}
	for i := 0; i < n; i++ {
		reached := false
		for _, st := range starts {
			reached = reached || g.reach(st, i)
		}
		if reached {
			zzverif.Assert("walk-visits-each-ancestor-once", visits[i] == 1)
		} else {
			zzverif.Assert("walk-visits-only-ancestors", visits[i] == 0)
		}
	}
	zzverif.Reach("end")
}

func Harness_C11_base() {
	n := zzverif.Param("n", 3)
	k := zzverif.Param("k", 2)
	g := zzBuildGraph(n)
	in := make([]int, k)
	sums := make([][]byte, k)
	for x := 0; x < k; x++ {
		in[x] = zzverif.Choose("in", n)
		for y := 0; y < x; y++ {
			zzverif.Assume(in[x] != in[y])
		}
		sums[x] = g.sums[in[x]]
	}
	// named input region of the known finding: timestamps not monotone along some edge
	skew := false
	for i := 0; i < n; i++ {
		for j := 0; j < i; j++ {
			if g.edges[i][j] {
				skew = zzverif.Or(skew, !g.commits[i].Time.After(g.commits[j].Time))
			}
		}
	}
	zzverif.Region("parent-not-older-than-child", skew)
	merge := false
	for i := 0; i < n; i++ {
		np := 0
		for j := 0; j < i; j++ {
			if g.edges[i][j] {
				np++
			}
		}
		if np >= 2 {
			merge = true
		}
	}
	zzverif.Region("a-merge-commit-in-the-history", merge)
	base, err := SeekCommonAncestor(g.db, sums...)
	exists := false
	for c := 0; c < n; c++ {
		all := true
		for _, x := range in {
			if !g.reach(x, c) {
				all = false
			}
		}
		if all {
			exists = true
		}
	}
	zzverif.Region("three-or-more-inputs-without-a-common-ancestor", k > 2 && !exists)
	if err != nil {
		zzverif.Assert("base-missing-only-when-none-exists", !exists)
		zzverif.Reach("none")
		return
	}
	zzverif.Assert("base-found-only-when-one-exists", exists)
	bi := g.idx(base)
	zzverif.Assert("base-is-a-known-commit", bi >= 0)
	if bi < 0 {
		return
	}
	for _, x := range in {
		zzverif.Assert("base-is-ancestor-of-every-input", g.reach(x, bi))
	}
	for _, x := range in {
		allDesc := true
		for _, y := range in {
			if !g.reach(y, x) {
				allDesc = false
			}
		}
		if allDesc {
			zzverif.Assert("base-is-the-input-that-is-ancestor-of-all-others", bi == x)
		}
	}
	zzverif.Observe("base", bi)
	zzverif.Reach("end")
}
