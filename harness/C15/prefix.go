//go:build verif

package refsql

import (
	"database/sql"
	"fmt"
	"strings"

	_ "github.com/mattn/go-sqlite3"
	"github.com/wrgl/wrgl/pkg/zzverif"
)

// C15 (literal-prefix sub-claim only): the real refsql.filterQuery is executed on
// a symbolic prefix and a symbolic ref name; the pattern argument it returns is
// matched by an evaluator of SQLite's DOCUMENTED LIKE contract ('%' any sequence,
// '_' any one character, ASCII case-insensitive, no escape character without an
// ESCAPE clause); the result must be "name literally starts with prefix".
// In the native replay the same prefix and name go through the REAL SQLite store
// (Set + Filter), which is what confirms a counterexample.

func zz15Lower(b byte) byte {
	up := zzverif.And(b >= 'A', b <= 'Z')
	return b + byte(zzverif.B2I(up)*32)
}

// zz15Like evaluates pattern LIKE name (branch-free dynamic programme).
func zz15Like(pat, name string) bool {
	np, nn := len(pat), len(name)
	m := make([][]bool, np+1)
	for i := range m {
		m[i] = make([]bool, nn+1)
	}
	m[np][nn] = true
	for i := np - 1; i >= 0; i-- {
		c := pat[i]
		isPct := c == '%'
		isUnd := c == '_'
		for j := nn; j >= 0; j-- {
			anyK := false
			for k := j; k <= nn; k++ {
				anyK = zzverif.Or(anyK, m[i+1][k])
			}
			one := false
			lit := false
			if j < nn {
				one = m[i+1][j+1]
				lit = zzverif.And(zz15Lower(c) == zz15Lower(name[j]), m[i+1][j+1])
			}
			r := zzverif.And(isPct, anyK)
			r = zzverif.Or(r, zzverif.And(isUnd, one))
			r = zzverif.Or(r, zzverif.And(zzverif.And(!isPct, !isUnd), lit))
			m[i][j] = r
		}
	}
	return m[0][0]
}

func zz15HasPrefix(name, prefix string) bool {
	if len(name) < len(prefix) {
		return false
	}
	eq := true
	for i := 0; i < len(prefix); i++ {
		eq = zzverif.And(eq, name[i] == prefix[i])
	}
	return eq
}

func zz15Printable(s string) {
	for i := 0; i < len(s); i++ {
		c := s[i]
		zzverif.Assume(c >= 0x21 && c <= 0x7e)
	}
}

func Harness_C15_prefix() {
	prefix := zzverif.String("prefix", zzverif.Param("prefixLen", 2))
	name := zzverif.String("name", zzverif.Param("nameLen", 3))
	zz15Printable(prefix)
	zz15Printable(name)
	wild := false
	for i := 0; i < len(prefix); i++ {
		wild = zzverif.Or(wild, zzverif.Or(prefix[i] == '_', prefix[i] == '%'))
	}
	zzverif.Region("prefix-contains-a-LIKE-wildcard", wild)
	letters := false
	for i := 0; i < len(prefix); i++ {
		c := zz15Lower(prefix[i])
		letters = zzverif.Or(letters, zzverif.And(c >= 'a', c <= 'z'))
	}
	zzverif.Region("prefix-contains-a-letter", letters)
	q, args := filterQuery("SELECT name FROM refs", []string{prefix}, nil)
	var matched bool
	if !zzverif.UnderGosym() {
		matched = zz15Real(prefix, name)
	} else {
		var ok bool
		matched, ok = zz15Where(q, args, name)
		if !ok {
			// the query no longer has a shape the evaluator understands: decide nothing
			zzverif.Reach("unmodelled-query")
			return
		}
	}
	zzverif.Assert("prefix-filter-selects-exactly-the-names-that-literally-start-with-the-prefix", matched == zz15HasPrefix(name, prefix))
	zzverif.Reach("end")
}

// zz15Real asks the real SQLite-backed store.
func zz15Real(prefix, name string) bool {
	db, err := sql.Open("sqlite3", fmt.Sprintf("file:zz15_%x.db?cache=shared&mode=memory", []byte(prefix+"|"+name)))
	if err != nil {
		panic(err)
	}
	defer db.Close()
	for _, stmt := range CreateTableStmts {
		if _, err := db.Exec(stmt); err != nil {
			panic(err)
		}
	}
	s := NewStore(db)
	if err := s.Set(name, make([]byte, 16)); err != nil {
		panic(err)
	}
	m, err := s.Filter([]string{prefix}, nil)
	if err != nil {
		panic(err)
	}
	_, ok := m[name]
	keys, err := s.FilterKey([]string{prefix}, nil)
	if err != nil {
		panic(err)
	}
	ok2 := false
	for _, k := range keys {
		if k == name {
			ok2 = true
		}
	}
	if ok != ok2 {
		panic("Filter and FilterKey disagree: " + strings.Join(keys, ","))
	}
	return ok
}

// zz15Where evaluates the single-prefix WHERE clause produced by filterQuery by
// the documented SQLite semantics of the operator it uses. Understood shapes:
//   name LIKE ?                      (% _ wildcards, ASCII case-insensitive)
//   name LIKE ? ESCAPE 'c'           (same, c makes the next character literal)
//   name GLOB ?                      (* ? wildcards, case-sensitive; '[' sets are not modelled)
//   substr(name, 1, length(?)) = ?   (character-wise, BINARY collation)
//   instr(name, ?) = 1               (literal, case-sensitive)
func zz15Where(q string, args []interface{}, name string) (matched, ok bool) {
	const head = "SELECT name FROM refs WHERE "
	if len(q) < len(head) || q[:len(head)] != head {
		return false, false
	}
	cond := q[len(head):]
	str := func(i int) string { return args[i].(string) }
	switch {
	case cond == "name LIKE ?" && len(args) == 1:
		return zz15Like(str(0), name), true
	case len(cond) == len("name LIKE ? ESCAPE 'c'") && cond[:len("name LIKE ? ESCAPE '")] == "name LIKE ? ESCAPE '" && cond[len(cond)-1] == '\'' && len(args) == 1:
		return zz15LikeEsc(str(0), name, cond[len(cond)-2]), true
	case cond == "name GLOB ?" && len(args) == 1:
		pat := str(0)
		for i := 0; i < len(pat); i++ {
			if pat[i] == '[' {
				return false, false
			}
		}
		return zz15Glob(pat, name), true
	case cond == "substr(name, 1, length(?)) = ?" && len(args) == 2:
		a0, a1 := str(0), str(1)
		return zzverif.And(zz15HasPrefix(name, a1), len(a0) == len(a1)), true
	case cond == "instr(name, ?) = 1" && len(args) == 1:
		return zz15HasPrefix(name, str(0)), true
	}
	return false, false
}

// zz15LikeEsc: LIKE with an escape character (recursive, forks on symbolic characters).
func zz15LikeEsc(p, n string, esc byte) bool {
	if len(p) == 0 {
		return len(n) == 0
	}
	c := p[0]
	if c == esc && len(p) > 1 {
		return len(n) > 0 && zz15Lower(p[1]) == zz15Lower(n[0]) && zz15LikeEsc(p[2:], n[1:], esc)
	}
	if c == '%' {
		for k := 0; k <= len(n); k++ {
			if zz15LikeEsc(p[1:], n[k:], esc) {
				return true
			}
		}
		return false
	}
	if c == '_' {
		return len(n) > 0 && zz15LikeEsc(p[1:], n[1:], esc)
	}
	return len(n) > 0 && zz15Lower(c) == zz15Lower(n[0]) && zz15LikeEsc(p[1:], n[1:], esc)
}

// zz15Glob: GLOB without character sets (case-sensitive).
func zz15Glob(p, n string) bool {
	if len(p) == 0 {
		return len(n) == 0
	}
	c := p[0]
	if c == '*' {
		for k := 0; k <= len(n); k++ {
			if zz15Glob(p[1:], n[k:]) {
				return true
			}
		}
		return false
	}
	if c == '?' {
		return len(n) > 0 && zz15Glob(p[1:], n[1:])
	}
	return len(n) > 0 && c == n[0] && zz15Glob(p[1:], n[1:])
}
