//go:build verif

package refsql

import (
	"database/sql"
	"fmt"
	"strings"

	_ "github.com/mattn/go-sqlite3"
	"github.com/wrgl/wrgl/pkg/zzverif"
)

// C15 (literal-prefix sub-claim only): the real refsql.filterQuery is executed on
// a symbolic prefix and a symbolic ref name; the pattern argument it returns is
// matched by an evaluator of SQLite's DOCUMENTED LIKE contract ('%' any sequence,
// '_' any one character, ASCII case-insensitive, no escape character without an
// ESCAPE clause); the result must be "name literally starts with prefix".
// In the native replay the same prefix and name go through the REAL SQLite store
// (Set + Filter), which is what confirms a counterexample.

func zz15Lower(b byte) byte {
	up := zzverif.And(b >= 'A', b <= 'Z')
	return b + byte(zzverif.B2I(up)*32)
}

// zz15Like evaluates pattern LIKE name (branch-free dynamic programme).
func zz15Like(pat, name string) bool {
	np, nn := len(pat), len(name)
	m := make([][]bool, np+1)
	for i := range m {
		m[i] = make([]bool, nn+1)
	}
	m[np][nn] = true
	for i := np - 1; i >= 0; i-- {
		c := pat[i]
		isPct := c == '%'
		isUnd := c == '_'
		for j := nn; j >= 0; j-- {
			anyK := false
			for k := j; k <= nn; k++ {
				anyK = zzverif.Or(anyK, m[i+1][k])
			}
			one := false
			lit := false
			if j < nn {
				one = m[i+1][j+1]
				lit = zzverif.And(zz15Lower(c) == zz15Lower(name[j]), m[i+1][j+1])
			}
			r := zzverif.And(isPct, anyK)
			r = zzverif.Or(r, zzverif.And(isUnd, one))
			r = zzverif.Or(r, zzverif.And(zzverif.And(!isPct, !isUnd), lit))
			m[i][j] = r
		}
	}
	return m[0][0]
}

func zz15HasPrefix(name, prefix string) bool {
	if len(name) < len(prefix) {
		return false
	}
	eq := true
	for i := 0; i < len(prefix); i++ {
		eq = zzverif.And(eq, name[i] == prefix[i])
	}
	return eq
}

func zz15Printable(s string) {
	for i := 0; i < len(s); i++ {
		c := s[i]
		zzverif.Assume(c >= 0x21 && c <= 0x7e)
	}
}

func Harness_C15_prefix() {
	prefix := zzverif.String("prefix", zzverif.Param("prefixLen", 2))
	name := zzverif.String("name", zzverif.Param("nameLen", 3))
	zz15Printable(prefix)
	zz15Printable(name)
	wild := false
	for i := 0; i < len(prefix); i++ {
		wild = zzverif.Or(wild, zzverif.Or(prefix[i] == '_', prefix[i] == '%'))
	}
	zzverif.Region("prefix-contains-a-LIKE-wildcard", wild)
	letters := false
	for i := 0; i < len(prefix); i++ {
		c := zz15Lower(prefix[i])
		letters = zzverif.Or(letters, zzverif.And(c >= 'a', c <= 'z'))
	}
	zzverif.Region("prefix-contains-a-letter", letters)
	q, args := filterQuery("SELECT name FROM refs", []string{prefix}, nil)
	var matched bool
	switch {
	case !zzverif.UnderGosym():
		matched = zz15Real(prefix, name)
	case q == "SELECT name FROM refs WHERE name LIKE ?" && len(args) == 1:
		matched = zz15Like(args[0].(string), name)
	case q == "SELECT name FROM refs WHERE substr(name, 1, length(?)) = ?" && len(args) == 2:
		// documented semantics: substr/length count characters, '=' on TEXT uses the
		// default BINARY collation (case-sensitive, no wildcards)
		a0, a1 := args[0].(string), args[1].(string)
		matched = zzverif.And(zz15HasPrefix(name, a1), len(a0) == len(a1))
	default:
		// the query no longer has a shape the evaluator understands: decide nothing
		zzverif.Reach("unmodelled-query")
		return
	}
	zzverif.Assert("prefix-filter-selects-exactly-the-names-that-literally-start-with-the-prefix", matched == zz15HasPrefix(name, prefix))
	zzverif.Reach("end")
}

// zz15Real asks the real SQLite-backed store.
func zz15Real(prefix, name string) bool {
	db, err := sql.Open("sqlite3", fmt.Sprintf("file:zz15_%x.db?cache=shared&mode=memory", []byte(prefix+"|"+name)))
	if err != nil {
		panic(err)
	}
	defer db.Close()
	for _, stmt := range CreateTableStmts {
		if _, err := db.Exec(stmt); err != nil {
			panic(err)
		}
	}
	s := NewStore(db)
	if err := s.Set(name, make([]byte, 16)); err != nil {
		panic(err)
	}
	m, err := s.Filter([]string{prefix}, nil)
	if err != nil {
		panic(err)
	}
	_, ok := m[name]
	keys, err := s.FilterKey([]string{prefix}, nil)
	if err != nil {
		panic(err)
	}
	ok2 := false
	for _, k := range keys {
		if k == name {
			ok2 = true
		}
	}
	if ok != ok2 {
		panic("Filter and FilterKey disagree: " + strings.Join(keys, ","))
	}
	return ok
}
