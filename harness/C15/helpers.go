//go:build verif

package refhelpers

import (
	"bytes"
	"io"

	"github.com/wrgl/wrgl/pkg/ref"
	"github.com/wrgl/wrgl/pkg/zzverif"
	"github.com/wrgl/wrgl/pkg/zzverif/zzrepo"
)

// C15 (helper layer): sequences of the exported ref operations of pkg/ref
// (SaveRef, SaveTag, SaveRemoteRef, DeleteRef, DeleteRemoteRef, RenameRef, CopyRef,
// DeleteAllRemoteRefs, RenameAllRemoteRefs, the List* functions and the log reader)
// over an in-memory store with exact-name semantics, compared after every step
// with a plain name -> value map with per-name logs that the harness maintains
// directly from the statement ("operations on one name or remote never affect
// another", "each log entry's old value is the value the ref held just before",
// "rename/copy carry the log along"). Names are drawn from a set with adversarial
// prefix relations (branch a / ab, remotes o / oo).

type zz15Log struct{ old, new []byte }

type zz15Model struct {
	refs map[string][]byte
	logs map[string][]zz15Log
}

var zz15Names = []string{"heads/a", "heads/ab", "tags/a", "remotes/o/a", "remotes/o/b", "remotes/oo/a", "remotes/o2/a"}
// "x%s": a remote name that must be taken literally wherever names are built with fmt
var zz15Remotes = []string{"o", "oo", "o2", "x%s"}

func zz15Val(i int) []byte { return bytes.Repeat([]byte{byte(0x10 + i)}, 16) }

func zz15HasPfx(s, p string) bool { return len(s) >= len(p) && s[:len(p)] == p }

func (m *zz15Model) compare(rs *zzrepo.RefStore) {
	for _, n := range zz15Names {
		v, err := ref.GetRef(rs, n)
		mv, ok := m.refs[n]
		zzverif.Assert("get-agrees-with-the-map", (err == nil) == ok && (!ok || bytes.Equal(v, mv)))
		r, err := rs.LogReader(n)
		ml := m.logs[n]
		if err != nil {
			zzverif.Assert("log-missing-only-when-the-map-has-none", len(ml) == 0)
			continue
		}
		for i := len(ml) - 1; i >= 0; i-- {
			l, err := r.Read()
			zzverif.Assert("log-has-every-entry-newest-first", err == nil)
			if err != nil {
				break
			}
			zzverif.Assert("log-entry-has-the-value-held-just-before-and-the-new-value", bytes.Equal(l.OldOID, ml[i].old) && bytes.Equal(l.NewOID, ml[i].new))
		}
		_, err = r.Read()
		zzverif.Assert("log-has-no-extra-entry", err == io.EOF)
	}
	check := func(label string, got map[string][]byte, err error, prefix string) {
		zzverif.Assert(label+"-no-error", err == nil)
		cnt := 0
		for n, v := range m.refs {
			if zz15HasPfx(n, prefix) {
				cnt++
				gv, ok := got[n[len(prefix):]]
				zzverif.Assert(label+"-lists-every-name-under-the-prefix", ok && bytes.Equal(gv, v))
			}
		}
		zzverif.Assert(label+"-lists-nothing-else", len(got) == cnt)
	}
	h, err := ref.ListHeads(rs)
	check("list-heads", h, err, "heads/")
	tg, err := ref.ListTags(rs)
	check("list-tags", tg, err, "tags/")
	for _, rem := range zz15Remotes {
		rr, err := ref.ListRemoteRefs(rs, rem)
		check("list-remote-refs", rr, err, "remotes/"+rem+"/")
	}
	all, err := ref.ListAllRefs(rs)
	check("list-all", all, err, "")
	loc, err := ref.ListLocalRefs(rs, nil, nil)
	zzverif.Assert("list-local-no-error", err == nil)
	cnt := 0
	for n, v := range m.refs {
		if !zz15HasPfx(n, "remotes/") {
			cnt++
			gv, ok := loc[n]
			zzverif.Assert("list-local-lists-every-non-remote-ref", ok && bytes.Equal(gv, v))
		}
	}
	zzverif.Assert("list-local-lists-nothing-else", len(loc) == cnt)
}

func Harness_C15_helpers() {
	steps := zzverif.Param("steps", 3)
	rs := zzrepo.NewRefStore()
	m := &zz15Model{refs: map[string][]byte{}, logs: map[string][]zz15Log{}}
	// a populated starting state chosen by the explorer
	// init: 0 = the three plain names are there and each adversarial one (heads/ab, tags/a,
	// remotes/oo/a, remotes/o2/a) is there or not as the explorer chooses; 1 = all there
	init := zzverif.Param("init", 0)
	for i, n := range zz15Names {
		always := n == "heads/a" || n == "remotes/o/a" || n == "remotes/o/b"
		if always || init == 1 || zzverif.Bool("present") {
			v := zz15Val(i % 3)
			rs.Refs[n] = v
			m.refs[n] = v
		}
	}
	for s := 0; s < steps; s++ {
		switch zzverif.Choose("op", 8) {
		case 0: // logged set
			n := zz15Names[zzverif.Choose("name", len(zz15Names))]
			v := zz15Val(zzverif.Choose("val", 3))
			err := ref.SaveRef(rs, n, v, "u", "u@x", "commit", "msg", nil)
			zzverif.Assert("save-ref-no-error", err == nil)
			m.logs[n] = append(m.logs[n], zz15Log{old: m.refs[n], new: v})
			m.refs[n] = v
		case 1: // plain set (tag)
			v := zz15Val(zzverif.Choose("val", 3))
			err := ref.SaveTag(rs, "a", v)
			zzverif.Assert("save-tag-no-error", err == nil)
			m.refs["tags/a"] = v
		case 2: // delete
			n := zz15Names[zzverif.Choose("name", len(zz15Names))]
			err := ref.DeleteRef(rs, n)
			zzverif.Assert("delete-no-error", err == nil)
			delete(m.refs, n)
			delete(m.logs, n)
		case 3: // rename
			a := zz15Names[zzverif.Choose("name", len(zz15Names))]
			b := zz15Names[zzverif.Choose("name2", len(zz15Names))]
			zzverif.Assume(a != b)
			_, err := ref.RenameRef(rs, a, b)
			if v, ok := m.refs[a]; ok {
				zzverif.Assert("rename-no-error", err == nil)
				m.refs[b] = v
				m.logs[b] = m.logs[a]
				delete(m.refs, a)
				delete(m.logs, a)
			}
			// renaming a name that is not there: error or no-op, the state comparison below decides
		case 4: // copy
			a := zz15Names[zzverif.Choose("name", len(zz15Names))]
			b := zz15Names[zzverif.Choose("name2", len(zz15Names))]
			zzverif.Assume(a != b)
			_, err := ref.CopyRef(rs, a, b)
			if v, ok := m.refs[a]; ok {
				zzverif.Assert("copy-no-error", err == nil)
				m.refs[b] = v
				m.logs[b] = append([]zz15Log{}, m.logs[a]...)
			}
			// copying a name that is not there: error or no-op, the state comparison below decides
		case 5: // delete all refs of a remote
			rem := zz15Remotes[zzverif.Choose("remote", len(zz15Remotes))]
			err := ref.DeleteAllRemoteRefs(rs, rem)
			zzverif.Assert("delete-all-remote-refs-no-error", err == nil)
			for n := range m.refs {
				if zz15HasPfx(n, "remotes/"+rem+"/") {
					delete(m.refs, n)
					delete(m.logs, n)
				}
			}
		case 6: // rename a remote
			a := zz15Remotes[zzverif.Choose("remote", len(zz15Remotes))]
			b := zz15Remotes[zzverif.Choose("remote2", len(zz15Remotes))]
			zzverif.Assume(a != b)
			// the destination remote must not have refs of the same names (the command layer refuses it)
			clash := false
			for n := range m.refs {
				if zz15HasPfx(n, "remotes/"+b+"/") {
					clash = true
				}
			}
			zzverif.Assume(!clash)
			err := ref.RenameAllRemoteRefs(rs, a, b)
			zzverif.Assert("rename-all-remote-refs-no-error", err == nil)
			moved := map[string][]byte{}
			movedLogs := map[string][]zz15Log{}
			for n, v := range m.refs {
				if zz15HasPfx(n, "remotes/"+a+"/") {
					nn := "remotes/" + b + "/" + n[len("remotes/"+a+"/"):]
					moved[nn] = v
					movedLogs[nn] = m.logs[n]
					delete(m.refs, n)
					delete(m.logs, n)
				}
			}
			for n, v := range moved {
				m.refs[n] = v
				if l, ok := movedLogs[n]; ok && l != nil {
					m.logs[n] = l
				}
			}
		case 7: // logged set of a remote ref through the remote helper, then delete through it
			rem := zz15Remotes[zzverif.Choose("remote", len(zz15Remotes))]
			v := zz15Val(zzverif.Choose("val", 3))
			n := "remotes/" + rem + "/a"
			err := ref.SaveRemoteRef(rs, rem, "a", v, "u", "u@x", "fetch", "msg")
			zzverif.Assert("save-remote-ref-no-error", err == nil)
			m.logs[n] = append(m.logs[n], zz15Log{old: m.refs[n], new: v})
			m.refs[n] = v
			if zzverif.Bool("thenDelete") {
				err = ref.DeleteRemoteRef(rs, rem, "a")
				zzverif.Assert("delete-remote-ref-no-error", err == nil)
				delete(m.refs, n)
				delete(m.logs, n)
			}
		}
		m.compare(rs)
	}
	zzverif.Reach("end")
}
