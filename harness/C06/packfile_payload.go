//go:build verif

package packfile

import (
	"bytes"
	"io"

	"github.com/wrgl/wrgl/pkg/zzverif"
)

// C06f: writer -> reader for small symbolic payloads (header + body framing).
func Harness_C06_packfile_objects() {
	l1, l2 := zzverif.Param("len1", 2), zzverif.Param("len2", 0)
	p1, p2 := zzverif.Bytes("p1", l1), zzverif.Bytes("p2", l2)
	t1, t2 := zzverif.Int("t1", 1, 3), zzverif.Int("t2", 1, 3)
	buf := bytes.NewBuffer(nil)
	pw, err := NewPackfileWriter(buf)
	zzverif.Assert("writer-created", err == nil)
	n1, err := pw.WriteObject(t1, p1)
	zzverif.Assert("object-1-written", err == nil && n1 == 2+l1)
	_, err = pw.WriteObject(t2, p2)
	zzverif.Assert("object-2-written", err == nil)
	pr, err := NewPackfileReader(io.NopCloser(bytes.NewReader(buf.Bytes())))
	zzverif.Assert("reader-created", err == nil)
	if err != nil {
		return
	}
	ot, b, err := pr.ReadObject()
	zzverif.Assert("object-1-roundtrip", err == nil && ot == t1 && bytes.Equal(b, p1))
	ot, b, err = pr.ReadObject()
	zzverif.Assert("object-2-roundtrip", (err == nil || err == io.EOF) && ot == t2 && bytes.Equal(b, p2))
	ot, _, err = pr.ReadObject()
	zzverif.Assert("end-of-packfile", ot == 0 && err != nil)
	zzverif.Reach("end")
}
