//go:build verif

package objects

import (
	"bytes"
	"strings"
	"time"

	"github.com/wrgl/wrgl/pkg/encoding"
	"github.com/wrgl/wrgl/pkg/encoding/objline"
	"github.com/wrgl/wrgl/pkg/misc"
	"github.com/wrgl/wrgl/pkg/zzverif"
)

// C06 b-g: every object codec round-trips (decode(encode(x)) == x and
// encode(decode(encode(x))) == encode(x)) with symbolic field contents, and every
// object is stored under the hash of its canonical bytes.

// ---- a: string list (cells of concrete small length, symbolic content) ----
func Harness_C06_strlist() {
	n := zzverif.Param("cells", 2)
	l := zzverif.Param("len", 1)
	sl := make([]string, n)
	for i := range sl {
		sl[i] = zzverif.String("cell", l)
	}
	b := NewStrListEncoder(false).Encode(sl)
	zzverif.Assert("strlist-encoded-size", len(b) == 4+n*(2+l))
	m, err := ValidateStrListBytes(b)
	zzverif.Assert("strlist-validates", err == nil && m == len(b))
	got := NewStrListDecoder(false).Decode(b)
	zzverif.Assert("strlist-decode-count", len(got) == n)
	for i := range sl {
		if i < len(got) {
			zzverif.Assert("strlist-decode-roundtrip", got[i] == sl[i])
		}
	}
	cnt, got2, err := NewStrListDecoder(false).Read(bytes.NewReader(b))
	zzverif.Assert("strlist-read-roundtrip", err == nil && cnt == int64(len(b)) && len(got2) == n)
	for i := range sl {
		if i < len(got2) {
			zzverif.Assert("strlist-read-cells", got2[i] == sl[i])
		}
	}
	nb, raw, err := NewStrListDecoder(false).ReadBytes(bytes.NewReader(append(append([]byte{}, b...), 0xff, 0xff)))
	zzverif.Assert("strlist-readbytes-consumes-exactly-one-list", err == nil && nb == len(b) && bytes.Equal(raw, b))
	zzverif.Assert("strlist-reencode-identical", bytes.Equal(NewStrListEncoder(false).Encode(got), b))
	zzverif.Reach("end")
}

// long cells: concrete content, lengths at the 16-bit boundary
func Harness_C06_strlist_long() {
	l := zzverif.Param("len", 65535)
	zzverif.Region("cell-of-exactly-65536-bytes", l == 65536)
	zzverif.Region("row-larger-than-64KiB", 4+2+l+2+1 > 65535)
	cell := strings.Repeat("a", l)
	sl := []string{cell, zzverif.String("tail", 1)}
	var b []byte
	msg := zzverif.TryMsg(func() { b = NewStrListEncoder(false).Encode(sl) })
	if l > 65535 {
		zzverif.Assert("cell-over-65535-bytes-is-refused-at-write-time", msg != "")
		zzverif.Reach("end")
		return
	}
	zzverif.Assert("cell-within-limit-is-accepted", msg == "")
	if msg != "" {
		return
	}
	// the documented format: 4-byte count, then per cell a 2-byte length and the bytes
	want := []byte{0, 0, 0, 2, byte(l >> 8), byte(l)}
	want = append(want, cell...)
	want = append(want, 0, 1)
	want = append(want, sl[1]...)
	okBytes := bytes.Equal(b, want)
	zzverif.Assert("long-row-is-encoded-in-the-documented-format", okBytes)
	if !okBytes {
		return // decoding corrupted bytes proves nothing more
	}
	got := NewStrListDecoder(false).Decode(b)
	zzverif.Assert("long-row-decode-count", len(got) == 2)
	if len(got) == 2 {
		zzverif.Assert("long-row-first-cell-roundtrip", got[0] == cell)
		zzverif.Assert("long-row-cell-after-the-long-one-roundtrip", got[1] == sl[1])
	}
	_, got2, err := NewStrListDecoder(false).Read(bytes.NewReader(b))
	zzverif.Assert("long-row-read-roundtrip", err == nil && len(got2) == 2 && got2[0] == cell && got2[1] == sl[1])
	zzverif.Reach("end")
}

// ---- b: objline strings and the commit object ----
func Harness_C06_objline_string() {
	l := zzverif.Param("len", 2)
	zzverif.Region("text-field-longer-than-65535-bytes", l > 65535)
	var s string
	if l <= 8 {
		s = zzverif.String("s", l)
	} else {
		s = strings.Repeat("x", l)
	}
	buf := bytes.NewBuffer(nil)
	var werr error
	msg := zzverif.TryMsg(func() { _, werr = objline.WriteString(buf, misc.NewBuffer(nil), s) })
	if l > 65535 {
		zzverif.Assert("text-over-65535-bytes-is-refused-at-write-time", msg != "" || werr != nil)
		zzverif.Reach("end")
		return
	}
	zzverif.Assert("string-written", msg == "" && werr == nil && buf.Len() == 2+l)
	var got string
	n, err := objline.ReadString(encoding.NewParser(bytes.NewReader(buf.Bytes())), &got)
	zzverif.Assert("string-roundtrip", err == nil && n == int64(2+l) && got == s)
	zzverif.Reach("end")
}

var zz6Zones = []*time.Location{time.UTC, time.FixedZone("", 7*3600), time.FixedZone("", -(3*3600 + 1800))}
// the time field is 16 bytes: ten characters of Unix seconds, a space, a five-character
// zone. Instants 4.. lie at and beyond the edges of what ten characters hold.
var zz6Instants = []int64{0, 1, 1600000000, 9999999999, 10000000000, -1, -999999999, -1000000000, 253402300800}

func Harness_C06_commit() {
	np := zzverif.Param("parents", 1)
	c := &Commit{Table: zzverif.Bytes("table", 16), AuthorName: zzverif.String("name", zzverif.Param("nameLen", 2)), AuthorEmail: zzverif.String("email", 1), Message: zzverif.String("msg", zzverif.Param("msgLen", 2))}
	zi, ti := zzverif.Param("zone", 0), zzverif.Param("instant", 2)
	if ti >= 0 {
		c.Time = time.Unix(zz6Instants[ti], 0).In(zz6Zones[zi])
	}
	for i := 0; i < np; i++ {
		c.Parents = append(c.Parents, zzverif.Bytes("parent", 16))
	}
	buf := bytes.NewBuffer(nil)
	n, err := c.WriteTo(buf)
	if ti >= 0 && (zz6Instants[ti] > 9999999999 || zz6Instants[ti] < -999999999) {
		zzverif.Assert("instant-that-does-not-fit-the-time-field-is-refused-at-write-time", err != nil)
		zzverif.Reach("end")
		return
	}
	zzverif.Assert("commit-written", err == nil && n == int64(buf.Len()))
	n2, got, err := ReadCommitFrom(bytes.NewReader(buf.Bytes()))
	zzverif.Assert("commit-decodes", err == nil && n2 == n)
	if err != nil {
		return
	}
	zzverif.Assert("commit-fields-roundtrip", bytes.Equal(got.Table, c.Table) && got.AuthorName == c.AuthorName && got.AuthorEmail == c.AuthorEmail && got.Message == c.Message)
	zzverif.Assert("commit-time-roundtrip", got.Time.Equal(c.Time) && got.Time.IsZero() == c.Time.IsZero())
	if !c.Time.IsZero() {
		_, o1 := got.Time.Zone()
		_, o2 := c.Time.Zone()
		zzverif.Assert("commit-zone-roundtrip", o1 == o2)
	}
	zzverif.Assert("commit-parent-count", len(got.Parents) == np)
	for i := range got.Parents {
		if i < np {
			zzverif.Assert("commit-parents-roundtrip", bytes.Equal(got.Parents[i], c.Parents[i]))
		}
	}
	buf2 := bytes.NewBuffer(nil)
	got.WriteTo(buf2)
	zzverif.Assert("commit-reencode-identical", bytes.Equal(buf2.Bytes(), buf.Bytes()))
	// stored under the hash of its canonical bytes
	db := zz6NewStore()
	sum, err := SaveCommit(db, buf.Bytes())
	zzverif.Assert("commit-saved", err == nil && len(sum) == 16)
	raw, err := db.Get(append([]byte("com/"), sum...))
	zzverif.Assert("commit-stored-under-its-hash", err == nil && bytes.Equal(raw, buf.Bytes()))
	back, err := GetCommit(db, sum)
	zzverif.Assert("commit-read-back", err == nil && back.Message == c.Message && bytes.Equal(back.Sum, sum))
	sum2, _ := SaveCommit(db, buf2.Bytes())
	zzverif.Assert("identical-content-identical-identifier", bytes.Equal(sum, sum2) && db.Len() == 1)
	zzverif.Reach("end")
}

// a commit with a text field at the 16-bit boundary: written and read back, or refused
// at write time - never written as something unreadable
func Harness_C06_commit_long() {
	l := zzverif.Param("len", 65536)
	field := zzverif.Param("field", 0) // 0 message, 1 author name, 2 author email
	long := strings.Repeat("m", l-1) + zzverif.String("last", 1)
	c := &Commit{Table: bytes.Repeat([]byte{7}, 16), AuthorName: "n", AuthorEmail: "e", Message: "x", Time: time.Unix(1600000000, 0).UTC()}
	switch field {
	case 0:
		c.Message = long
	case 1:
		c.AuthorName = long
	case 2:
		c.AuthorEmail = long
	}
	buf := bytes.NewBuffer(nil)
	_, err := c.WriteTo(buf)
	if l > 65535 {
		zzverif.Assert("text-field-over-65535-bytes-is-refused-at-write-time", err != nil)
		zzverif.Reach("end")
		return
	}
	zzverif.Assert("text-field-within-limit-is-written", err == nil)
	if err != nil {
		return
	}
	_, got, err := ReadCommitFrom(bytes.NewReader(buf.Bytes()))
	zzverif.Assert("long-commit-decodes", err == nil)
	if err == nil {
		zzverif.Assert("long-commit-fields-roundtrip", got.Message == c.Message && got.AuthorName == c.AuthorName && got.AuthorEmail == c.AuthorEmail)
	}
	zzverif.Reach("end")
}

// ---- c: table ----
func Harness_C06_table() {
	ncols := zzverif.Param("cols", 2)
	cols := make([]string, ncols)
	for i := range cols {
		cols[i] = zzverif.String("col", 1)
	}
	var rows uint32
	// bigBlocks = B: a table of exactly B blocks; only the first and last sums are symbolic, the others are concrete and distinct
	big := zzverif.Param("bigBlocks", 0)
	if big > 0 {
		// concrete row count (one row in the last block): a symbolic one costs a solver
		// query per loop iteration of the decoder, 2 x B of them
		rows = uint32((big-1)*255 + 1)
	} else {
		rows = uint32(zzverif.Int("rows", 0, 765))
	}
	nb := int((rows + 254) / 255)
	nbC := big
	if big == 0 {
		nbC = zzverif.Concrete(nb)
	}
	t := &Table{Columns: cols, PK: []uint32{uint32(zzverif.Param("pk", 0))}, RowsCount: rows}
	for i := 0; i < nbC; i++ {
		if big > 0 && i > 0 && i < nbC-1 {
			b := bytes.Repeat([]byte{byte(i), byte(i >> 8)}, 8)
			t.Blocks = append(t.Blocks, b)
			t.BlockIndices = append(t.BlockIndices, append([]byte{0xee}, b[1:]...))
			continue
		}
		t.Blocks = append(t.Blocks, zzverif.Bytes("blk", 16))
		t.BlockIndices = append(t.BlockIndices, zzverif.Bytes("idx", 16))
	}
	buf := bytes.NewBuffer(nil)
	n, err := t.WriteTo(buf)
	zzverif.Assert("table-written", err == nil && n == int64(buf.Len()))
	n2, got, err := ReadTableFrom(bytes.NewReader(buf.Bytes()))
	zzverif.Assert("table-decodes", err == nil && n2 == n)
	if err != nil {
		return
	}
	zzverif.Assert("table-meta-roundtrip", len(got.Columns) == ncols && len(got.PK) == 1 && got.PK[0] == t.PK[0] && got.RowsCount == rows)
	for i := range got.Columns {
		if i < ncols {
			zzverif.Assert("table-columns-roundtrip", got.Columns[i] == cols[i])
		}
	}
	zzverif.Assert("table-block-count", len(got.Blocks) == nbC && len(got.BlockIndices) == nbC && uint32(nbC) == BlocksCount(rows))
	middleOK := true
	for i := 0; i < nbC && i < len(got.Blocks); i++ {
		if big > 0 && i > 0 && i < nbC-1 {
			// concrete sums: one concrete comparison, no solver query per block
			middleOK = middleOK && bytes.Equal(got.Blocks[i], t.Blocks[i]) && bytes.Equal(got.BlockIndices[i], t.BlockIndices[i])
			continue
		}
		zzverif.Assert("table-sums-roundtrip", bytes.Equal(got.Blocks[i], t.Blocks[i]) && bytes.Equal(got.BlockIndices[i], t.BlockIndices[i]))
	}
	zzverif.Assert("table-sums-roundtrip", middleOK)
	buf2 := bytes.NewBuffer(nil)
	got.WriteTo(buf2)
	zzverif.Assert("table-reencode-identical", bytes.Equal(buf2.Bytes(), buf.Bytes()))
	db := zz6NewStore()
	sum, err := SaveTable(db, buf.Bytes())
	zzverif.Assert("table-saved", err == nil)
	raw, err := db.Get(append([]byte("tbl/"), sum...))
	zzverif.Assert("table-stored-under-its-hash", err == nil && bytes.Equal(raw, buf.Bytes()))
	back, err := GetTable(db, sum)
	zzverif.Assert("table-read-back", err == nil && back.RowsCount == rows && bytes.Equal(back.Sum, sum))
	zzverif.Reach("end")
}

// ---- d: block ----
func Harness_C06_block() {
	nrows, ncols, l := zzverif.Param("rows", 2), zzverif.Param("cols", 2), zzverif.Param("len", 1)
	blk := make([][]string, nrows)
	var rowBytes [][]byte
	enc := NewStrListEncoder(false)
	for i := range blk {
		blk[i] = make([]string, ncols)
		for j := range blk[i] {
			blk[i][j] = zzverif.String("cell", l)
		}
		rowBytes = append(rowBytes, enc.Encode(blk[i]))
	}
	buf := bytes.NewBuffer(nil)
	n, err := WriteBlockTo(NewStrListEncoder(true), buf, blk)
	zzverif.Assert("block-written", err == nil && n == int64(buf.Len()))
	zzverif.Assert("combine-row-bytes-equals-write-block", bytes.Equal(CombineRowBytesIntoBlock(rowBytes), buf.Bytes()))
	zzverif.Assert("block-validates", ValidateBlockBytes(buf.Bytes()) == nil)
	n2, got, err := ReadBlockFrom(bytes.NewReader(buf.Bytes()))
	zzverif.Assert("block-decodes", err == nil && n2 == n && len(got) == nrows)
	for i := range got {
		for j := range got[i] {
			if i < nrows && j < ncols {
				zzverif.Assert("block-cells-roundtrip", got[i][j] == blk[i][j])
			}
		}
	}
	db := zz6NewStore()
	sum, _, err := SaveBlock(db, nil, buf.Bytes())
	zzverif.Assert("block-saved", err == nil)
	back, _, err := GetBlock(db, nil, sum)
	zzverif.Assert("block-read-back", err == nil && len(back) == nrows)
	sum2, _, _ := SaveBlock(db, nil, CombineRowBytesIntoBlock(rowBytes))
	zzverif.Assert("identical-block-stored-once", bytes.Equal(sum, sum2) && db.Len() == 1)
	zzverif.Reach("end")
}

// ---- e: block index ----
func Harness_C06_blockindex() {
	n := zzverif.Param("rows", 2)
	idx := &BlockIndex{sortedOff: make([]uint8, n), Rows: make([][]byte, n)}
	for i := 0; i < n; i++ {
		idx.sortedOff[i] = zzverif.Byte("off")
		idx.Rows[i] = zzverif.Bytes("row", 32)
	}
	buf := bytes.NewBuffer(nil)
	c, err := idx.WriteTo(buf)
	zzverif.Assert("blockindex-written", err == nil && c == int64(buf.Len()) && buf.Len() == 1+n+32*n)
	c2, got, err := ReadBlockIndex(bytes.NewReader(buf.Bytes()))
	zzverif.Assert("blockindex-decodes", err == nil && c2 == c && got.Len() == n)
	if err != nil || got.Len() != n {
		return
	}
	for i := 0; i < n; i++ {
		zzverif.Assert("blockindex-content-roundtrip", got.sortedOff[i] == idx.sortedOff[i] && bytes.Equal(got.Rows[i], idx.Rows[i]))
	}
	buf2 := bytes.NewBuffer(nil)
	got.WriteTo(buf2)
	zzverif.Assert("blockindex-reencode-identical", bytes.Equal(buf2.Bytes(), buf.Bytes()))
	db := zz6NewStore()
	sum, _, err := SaveBlockIndex(db, nil, buf.Bytes())
	zzverif.Assert("blockindex-saved", err == nil)
	back, _, err := GetBlockIndex(db, nil, sum)
	zzverif.Assert("blockindex-read-back", err == nil && back.Len() == n)
	zzverif.Reach("end")
}

// ---- uint list ----
func Harness_C06_uintlist() {
	n := zzverif.Param("n", 2)
	sl := make([]uint32, n)
	for i := range sl {
		sl[i] = zzverif.Uint32("u")
	}
	b := append([]byte{}, NewUintListEncoder().Encode(sl)...)
	zzverif.Assert("uintlist-size", len(b) == 4*(n+1))
	got := NewUintListDecoder(false).Decode(b)
	zzverif.Assert("uintlist-decode-count", len(got) == n)
	for i := range got {
		if i < n {
			zzverif.Assert("uintlist-decode-roundtrip", got[i] == sl[i])
		}
	}
	c, got2, err := NewUintListDecoder(false).Read(bytes.NewReader(b))
	zzverif.Assert("uintlist-read-roundtrip", err == nil && c == int64(len(b)) && len(got2) == n)
	zzverif.Assert("uintlist-reencode-identical", bytes.Equal(NewUintListEncoder().Encode(got), b))
	zzverif.Reach("end")
}

// ---- table profile: 64-bit float patterns are transported bit-exactly ----
func Harness_C06_profile() {
	f1, f2 := 1.5, -0.0
	p := &TableProfile{RowsCount: zzverif.Uint32("rows"), Columns: []*ColumnProfile{
		{Name: zzverif.String("name", 2), NACount: zzverif.Uint32("na"), Min: &f1, Max: &f2, MinStrLen: zzverif.Uint16("minl"), MaxStrLen: zzverif.Uint16("maxl"), AvgStrLen: 3,
			TopValues: ValueCounts{{Value: zzverif.String("top", 1), Count: zzverif.Uint32("cnt")}}, Percentiles: []float64{0.25, 1e300}},
		{Name: "plain"},
	}}
	buf := bytes.NewBuffer(nil)
	n, err := p.WriteTo(buf)
	zzverif.Assert("profile-written", err == nil && n == int64(buf.Len()))
	got := &TableProfile{}
	n2, err := got.ReadFrom(bytes.NewReader(buf.Bytes()))
	zzverif.Assert("profile-decodes", err == nil && n2 == n)
	if err != nil || len(got.Columns) != 2 {
		zzverif.Assert("profile-column-count", err != nil)
		return
	}
	a, b := p.Columns[0], got.Columns[0]
	zzverif.Assert("profile-scalars-roundtrip", got.RowsCount == p.RowsCount && b.Name == a.Name && b.NACount == a.NACount && b.MinStrLen == a.MinStrLen && b.MaxStrLen == a.MaxStrLen && b.AvgStrLen == 3)
	zzverif.Assert("profile-floats-roundtrip", b.Min != nil && *b.Min == 1.5 && b.Max != nil && *b.Max == 0 && b.Mean == nil && len(b.Percentiles) == 2 && b.Percentiles[1] == 1e300)
	zzverif.Assert("profile-top-values-roundtrip", len(b.TopValues) == 1 && b.TopValues[0].Value == a.TopValues[0].Value && b.TopValues[0].Count == a.TopValues[0].Count)
	buf2 := bytes.NewBuffer(nil)
	got.WriteTo(buf2)
	zzverif.Assert("profile-reencode-identical", bytes.Equal(buf2.Bytes(), buf.Bytes()))
	// a profile (and a table index) is stored under its TABLE's sum, not under the hash of
	// its own bytes: a table can be profiled or indexed again (wrgl profile --refresh,
	// reingest), and what was written last is what reads back
	db := zz6NewStore()
	sum := zzverif.Bytes("tableSum", 16)
	zzverif.Assert("profile-saved", SaveTableProfile(db, sum, buf.Bytes()) == nil)
	back, err := GetTableProfile(db, sum)
	zzverif.Assert("profile-read-back", err == nil && back != nil && back.RowsCount == p.RowsCount && len(back.Columns) == 2 && back.Columns[0].NACount == a.NACount)
	p.RowsCount++
	p.Columns[0].NACount = zzverif.Uint32("na2")
	buf3 := bytes.NewBuffer(nil)
	p.WriteTo(buf3)
	zzverif.Assert("profile-saved-again", SaveTableProfile(db, sum, buf3.Bytes()) == nil)
	raw, err := db.Get(append([]byte("tblsum/"), sum...))
	zzverif.Assert("profile-written-last-is-what-is-stored", err == nil && bytes.Equal(raw, buf3.Bytes()))
	back, err = GetTableProfile(db, sum)
	zzverif.Assert("profile-written-last-reads-back", err == nil && back != nil && back.RowsCount == p.RowsCount && len(back.Columns) == 2 && back.Columns[0].NACount == p.Columns[0].NACount)
	enc := NewStrListEncoder(false)
	idx1 := CombineRowBytesIntoBlock([][]byte{enc.Encode([]string{zzverif.String("k1", 1)})})
	idx2 := CombineRowBytesIntoBlock([][]byte{enc.Encode([]string{zzverif.String("k2", 1)}), enc.Encode([]string{"z"})})
	zzverif.Assert("table-index-saved", SaveTableIndex(db, sum, idx1) == nil && SaveTableIndex(db, sum, idx2) == nil)
	ti, err := GetTableIndex(db, sum)
	zzverif.Assert("table-index-written-last-reads-back", err == nil && len(ti) == 2)
	zzverif.Reach("end")
}

// zz6Store: an in-package objects.Store whose keys may contain symbolic bytes
// (association list compared with bytes.Equal); package objects cannot import the
// shared zzrepo helper (import cycle).
type zz6Entry struct{ k, v []byte }
type zz6Store struct{ e []zz6Entry }

func zz6NewStore() *zz6Store { return &zz6Store{} }
func (s *zz6Store) find(k []byte) int {
	for i := range s.e {
		if len(s.e[i].k) == len(k) && bytes.Equal(s.e[i].k, k) {
			return i
		}
	}
	return -1
}
func (s *zz6Store) Get(k []byte) ([]byte, error) {
	if i := s.find(k); i >= 0 {
		return s.e[i].v, nil
	}
	return nil, ErrKeyNotFound
}
func (s *zz6Store) Set(k, v []byte) error {
	kc, vc := append([]byte{}, k...), append([]byte{}, v...)
	if i := s.find(k); i >= 0 {
		s.e[i].v = vc
		return nil
	}
	s.e = append(s.e, zz6Entry{kc, vc})
	return nil
}
func (s *zz6Store) Delete(k []byte) error {
	if i := s.find(k); i >= 0 {
		s.e = append(s.e[:i], s.e[i+1:]...)
	}
	return nil
}
func (s *zz6Store) Exist(k []byte) bool                        { return s.find(k) >= 0 }
func (s *zz6Store) Filter(p []byte) (map[string][]byte, error) { return nil, nil }
func (s *zz6Store) FilterKey(p []byte) ([][]byte, error)       { return nil, nil }
func (s *zz6Store) Clear(p []byte) error                       { return nil }
func (s *zz6Store) Close() error                               { return nil }
func (s *zz6Store) Len() int                                   { return len(s.e) }
