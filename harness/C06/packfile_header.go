//go:build verif

package packfile

import (
	"bytes"

	"github.com/wrgl/wrgl/pkg/misc"
	"github.com/wrgl/wrgl/pkg/zzverif"
)

// C06f: the packfile type+length header round-trips for EVERY object length.
// u is one 64-bit solver variable; the float idiom in encodeObjTypeAndLen is
// handled by the engine's measured float mini-domain (DESIGN 2.6).
func Harness_C06_header_roundtrip() {
	u := zzverif.Uint64("u")
	ty := zzverif.Int("type", 1, 3)
	zzverif.Region("len-zero", u == 0)
	b := encodeObjTypeAndLen(misc.NewBuffer(nil), ty, u)
	c := make([]byte, len(b))
	copy(c, b)
	rd := bytes.NewReader(c)
	ty2, u2, err := decodeObjTypeAndLen(rd)
	zzverif.Assert("header-decodes", err == nil)
	zzverif.Assert("header-type-roundtrip", ty2 == ty)
	zzverif.Assert("header-len-roundtrip", u2 == u)
	zzverif.Assert("header-consumed-exactly", rd.Len() == 0)
	zzverif.Reach("end")
}
