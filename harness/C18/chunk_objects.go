//go:build verif

package objects

import (
	"bytes"
	"io"
	"time"

	"github.com/wrgl/wrgl/pkg/zzverif"
)

// C18: a valid encoding produced by the real writer is served by a reader that
// exercises what the io.Reader contract allows: short reads (n >= 1) and
// "final bytes together with io.EOF". The decode result must equal the one
// obtained from bytes.Reader over the same bytes.
//
// Bound: at most `shorts` Read calls per stream are short (their position in the
// call sequence and their size are chosen by the explorer); every other call is
// served in full.

type c18Reader struct {
	b      []byte
	pos    int
	shorts int
}

func (r *c18Reader) Read(p []byte) (int, error) {
	rem := len(r.b) - r.pos
	if rem == 0 {
		return 0, io.EOF
	}
	if len(p) == 0 {
		return 0, nil
	}
	max := len(p)
	if rem < max {
		max = rem
	}
	n := max
	if max > 1 && r.shorts > 0 && zzverif.Bool("short") {
		r.shorts--
		opts := []int{1, max - 1, max / 2}
		k := 3
		if max == 2 {
			k = 1
		} else if max == 3 {
			k = 2
		}
		n = opts[zzverif.Choose("size", k)]
	}
	copy(p, r.b[r.pos:r.pos+n])
	r.pos += n
	if r.pos == len(r.b) && zzverif.Bool("eofWithData") {
		return n, io.EOF
	}
	return n, nil
}

func c18reader(b []byte) *c18Reader {
	return &c18Reader{b: b, shorts: zzverif.Param("shorts", 2)}
}

func Harness_C18_commit() {
	c := &Commit{Table: bytes.Repeat([]byte{7}, 16), AuthorName: "ab", AuthorEmail: "c", Message: "m", Time: time.Unix(1600000000, 0).UTC()}
	for i := 0; i < zzverif.Param("parents", 1); i++ {
		c.Parents = append(c.Parents, bytes.Repeat([]byte{byte(i + 1)}, 16))
	}
	buf := bytes.NewBuffer(nil)
	c.WriteTo(buf)
	n0, c0, err0 := ReadCommitFrom(bytes.NewReader(buf.Bytes()))
	zzverif.Assert("whole-stream-decodes", err0 == nil && n0 == int64(buf.Len()))
	n1, c1, err1 := ReadCommitFrom(c18reader(buf.Bytes()))
	zzverif.Assert("commit-chunked-no-error", err1 == nil)
	if err1 != nil {
		return
	}
	zzverif.Assert("commit-chunked-same-count", n1 == n0)
	zzverif.Assert("commit-chunked-same-fields", bytes.Equal(c1.Table, c0.Table) && c1.AuthorName == c0.AuthorName && c1.AuthorEmail == c0.AuthorEmail &&
		c1.Message == c0.Message && c1.Time.Equal(c0.Time) && len(c1.Parents) == len(c0.Parents))
	for i := range c1.Parents {
		if i < len(c0.Parents) {
			zzverif.Assert("commit-chunked-same-parent", bytes.Equal(c1.Parents[i], c0.Parents[i]))
		}
	}
	zzverif.Reach("end")
}

func Harness_C18_table() {
	t := &Table{Columns: []string{"a", "bc"}, PK: []uint32{0}, RowsCount: 256,
		Blocks: [][]byte{bytes.Repeat([]byte{1}, 16), bytes.Repeat([]byte{2}, 16)}, BlockIndices: [][]byte{bytes.Repeat([]byte{3}, 16), bytes.Repeat([]byte{4}, 16)}}
	buf := bytes.NewBuffer(nil)
	t.WriteTo(buf)
	n0, t0, err0 := ReadTableFrom(bytes.NewReader(buf.Bytes()))
	zzverif.Assert("whole-stream-decodes", err0 == nil && n0 == int64(buf.Len()))
	n1, t1, err1 := ReadTableFrom(c18reader(buf.Bytes()))
	zzverif.Assert("table-chunked-no-error", err1 == nil)
	if err1 != nil {
		return
	}
	zzverif.Assert("table-chunked-same-count", n1 == n0)
	ok := len(t1.Columns) == 2 && t1.Columns[0] == "a" && t1.Columns[1] == "bc" && len(t1.PK) == 1 && t1.PK[0] == 0 && t1.RowsCount == 256 &&
		len(t1.Blocks) == 2 && len(t1.BlockIndices) == 2
	zzverif.Assert("table-chunked-same-meta", ok)
	if ok {
		for i := 0; i < 2; i++ {
			zzverif.Assert("table-chunked-same-sums", bytes.Equal(t1.Blocks[i], t0.Blocks[i]) && bytes.Equal(t1.BlockIndices[i], t0.BlockIndices[i]))
		}
	}
	zzverif.Reach("end")
}

func Harness_C18_block() {
	buf := bytes.NewBuffer(nil)
	WriteBlockTo(NewStrListEncoder(true), buf, [][]string{{"1", "xy"}, {"2", ""}})
	n0, b0, err0 := ReadBlockFrom(bytes.NewReader(buf.Bytes()))
	zzverif.Assert("whole-stream-decodes", err0 == nil && n0 == int64(buf.Len()) && len(b0) == 2)
	n1, b1, err1 := ReadBlockFrom(c18reader(buf.Bytes()))
	zzverif.Assert("block-chunked-no-error", err1 == nil)
	if err1 != nil {
		return
	}
	zzverif.Assert("block-chunked-same-count", n1 == n0)
	ok := len(b1) == 2 && len(b1[0]) == 2 && len(b1[1]) == 2
	zzverif.Assert("block-chunked-same-shape", ok)
	if ok {
		zzverif.Assert("block-chunked-same-rows", b1[0][0] == "1" && b1[0][1] == "xy" && b1[1][0] == "2" && b1[1][1] == "")
	}
	zzverif.Reach("end")
}

func Harness_C18_blockindex() {
	idx := &BlockIndex{sortedOff: []uint8{1, 0}, Rows: [][]byte{bytes.Repeat([]byte{9}, 32), bytes.Repeat([]byte{5}, 32)}}
	buf := bytes.NewBuffer(nil)
	idx.WriteTo(buf)
	n0, i0, err0 := ReadBlockIndex(bytes.NewReader(buf.Bytes()))
	zzverif.Assert("whole-stream-decodes", err0 == nil && n0 == int64(buf.Len()) && i0.Len() == 2)
	n1, i1, err1 := ReadBlockIndex(c18reader(buf.Bytes()))
	zzverif.Assert("blockindex-chunked-no-error", err1 == nil)
	if err1 != nil {
		return
	}
	zzverif.Assert("blockindex-chunked-same-count", n1 == n0)
	ok := i1.Len() == 2 && len(i1.sortedOff) == 2
	zzverif.Assert("blockindex-chunked-same-shape", ok)
	if ok {
		zzverif.Assert("blockindex-chunked-same-content", i1.sortedOff[0] == 1 && i1.sortedOff[1] == 0 && bytes.Equal(i1.Rows[0], i0.Rows[0]) && bytes.Equal(i1.Rows[1], i0.Rows[1]))
	}
	zzverif.Reach("end")
}

func Harness_C18_uintlist() {
	b := NewUintListEncoder().Encode([]uint32{5, 70000})
	c := make([]byte, len(b))
	copy(c, b)
	n0, l0, err0 := NewUintListDecoder(false).Read(bytes.NewReader(c))
	zzverif.Assert("whole-stream-decodes", err0 == nil && n0 == int64(len(c)) && len(l0) == 2)
	n1, l1, err1 := NewUintListDecoder(false).Read(c18reader(c))
	zzverif.Assert("uintlist-chunked-no-error", err1 == nil)
	if err1 != nil {
		return
	}
	zzverif.Assert("uintlist-chunked-same", n1 == n0 && len(l1) == 2 && l1[0] == 5 && l1[1] == 70000)
	zzverif.Reach("end")
}

func Harness_C18_strlist() {
	b := NewStrListEncoder(false).Encode([]string{"ab", "", "c"})
	n0, l0, err0 := NewStrListDecoder(false).Read(bytes.NewReader(b))
	zzverif.Assert("whole-stream-decodes", err0 == nil && n0 == int64(len(b)) && len(l0) == 3)
	n1, l1, err1 := NewStrListDecoder(false).Read(c18reader(b))
	zzverif.Assert("strlist-chunked-no-error", err1 == nil)
	if err1 != nil {
		return
	}
	zzverif.Assert("strlist-chunked-same", n1 == n0 && len(l1) == 3 && l1[0] == "ab" && l1[1] == "" && l1[2] == "c")
	zzverif.Reach("end")
}

func Harness_C18_floatlist() {
	b := NewFloatListEncoder().Encode([]float64{1.5, -2})
	c := make([]byte, len(b))
	copy(c, b)
	n0, l0, err0 := NewFloatListDecoder(false).Read(bytes.NewReader(c))
	zzverif.Assert("whole-stream-decodes", err0 == nil && n0 == int64(len(c)) && len(l0) == 2)
	n1, l1, err1 := NewFloatListDecoder(false).Read(c18reader(c))
	zzverif.Assert("floatlist-chunked-no-error", err1 == nil)
	if err1 != nil {
		return
	}
	zzverif.Assert("floatlist-chunked-same", n1 == n0 && len(l1) == 2 && l1[0] == 1.5 && l1[1] == -2)
	zzverif.Reach("end")
}

func Harness_C18_profile() {
	one := 1.5
	p := &TableProfile{
		RowsCount: 2,
		Columns: []*ColumnProfile{
			{Name: "a", NACount: 1, Min: &one, MaxStrLen: 3, TopValues: ValueCounts{{Value: "x", Count: 2}}, Percentiles: []float64{1, 2}},
		},
	}
	buf := bytes.NewBuffer(nil)
	p.WriteTo(buf)
	b := buf.Bytes()
	p0 := &TableProfile{}
	n0, err0 := p0.ReadFrom(bytes.NewReader(b))
	zzverif.Assert("whole-stream-decodes", err0 == nil && n0 == int64(len(b)) && len(p0.Columns) == 1)
	p1 := &TableProfile{}
	n1, err1 := p1.ReadFrom(c18reader(b))
	zzverif.Assert("profile-chunked-no-error", err1 == nil)
	if err1 != nil {
		return
	}
	ok := n1 == n0 && p1.RowsCount == 2 && len(p1.Columns) == 1
	if ok {
		c := p1.Columns[0]
		ok = c.Name == "a" && c.NACount == 1 && c.Min != nil && *c.Min == 1.5 && c.MaxStrLen == 3 &&
			len(c.TopValues) == 1 && c.TopValues[0].Value == "x" && c.TopValues[0].Count == 2 &&
			len(c.Percentiles) == 2 && c.Percentiles[0] == 1 && c.Percentiles[1] == 2
	}
	zzverif.Assert("profile-chunked-same", ok)
	zzverif.Reach("end")
}
