//go:build verif

package pktline

import (
	"bytes"
	"io"

	"github.com/wrgl/wrgl/pkg/encoding"
	"github.com/wrgl/wrgl/pkg/misc"
	"github.com/wrgl/wrgl/pkg/zzverif"
)

type c18Reader struct {
	b   []byte
	pos int
}

func (r *c18Reader) Read(p []byte) (int, error) {
	rem := len(r.b) - r.pos
	if rem == 0 {
		return 0, io.EOF
	}
	if len(p) == 0 {
		return 0, nil
	}
	max := len(p)
	if rem < max {
		max = rem
	}
	n := 1 + zzverif.Choose("n", max)
	copy(p, r.b[r.pos:r.pos+n])
	r.pos += n
	if r.pos == len(r.b) && zzverif.Bool("eofWithData") {
		return n, io.EOF
	}
	return n, nil
}

func Harness_C18_pktline() {
	buf := bytes.NewBuffer(nil)
	mb := misc.NewBuffer(nil)
	WritePktLine(buf, mb, "ab")
	WritePktLine(buf, mb, "c")
	WritePktLine(buf, mb, "")
	p := encoding.NewParser(&c18Reader{b: buf.Bytes()})
	s1, e1 := ReadPktLine(p)
	zzverif.Assert("pktline-chunked-first", e1 == nil && s1 == "ab")
	if e1 != nil {
		return
	}
	s2, e2 := ReadPktLine(p)
	zzverif.Assert("pktline-chunked-second", e2 == nil && s2 == "c")
	if e2 != nil {
		return
	}
	s3, e3 := ReadPktLine(p)
	zzverif.Assert("pktline-chunked-flush", (e3 == nil || e3 == io.EOF) && s3 == "")
	zzverif.Reach("end")
}
