//go:build verif

package packfile

import (
	"bytes"
	"io"

	"github.com/wrgl/wrgl/pkg/zzverif"
)

// C18 for the packfile reader: EVERY chunking of a small 2-object packfile
// (each Read returns any n in [1, min(len(p), remaining)], final bytes optionally
// together with io.EOF) must yield the same objects as bytes.Reader.

type c18Reader struct {
	b   []byte
	pos int
}

func (r *c18Reader) Read(p []byte) (int, error) {
	rem := len(r.b) - r.pos
	if rem == 0 {
		return 0, io.EOF
	}
	if len(p) == 0 {
		return 0, nil
	}
	max := len(p)
	if rem < max {
		max = rem
	}
	n := 1 + zzverif.Choose("n", max)
	copy(p, r.b[r.pos:r.pos+n])
	r.pos += n
	if r.pos == len(r.b) && zzverif.Bool("eofWithData") {
		return n, io.EOF
	}
	return n, nil
}

type c18obj struct {
	t int
	b string
}

func c18readAll(r io.Reader) (objs []c18obj, failed bool) {
	pr, err := NewPackfileReader(io.NopCloser(r))
	if err != nil {
		return nil, true
	}
	for i := 0; i < 8; i++ {
		ot, b, err := pr.ReadObject()
		if err != nil && err != io.EOF {
			return objs, true
		}
		if ot != 0 {
			objs = append(objs, c18obj{ot, string(b)})
		}
		if err == io.EOF || ot == 0 {
			return objs, false
		}
	}
	return objs, true
}

func Harness_C18_packfile() {
	buf := bytes.NewBuffer(nil)
	pw, _ := NewPackfileWriter(buf)
	pw.WriteObject(ObjectBlock, []byte("abcdef")[:zzverif.Param("len1", 2)])
	pw.WriteObject(ObjectCommit, []byte("c"))
	whole, wf := c18readAll(bytes.NewReader(buf.Bytes()))
	zzverif.Assert("whole-stream-decodes", !wf && len(whole) == 2)
	got, gf := c18readAll(&c18Reader{b: buf.Bytes()})
	zzverif.Assert("packfile-chunked-no-error", !gf)
	zzverif.Assert("packfile-chunked-same-count", len(got) == len(whole))
	for i := range got {
		if i < len(whole) {
			zzverif.Assert("packfile-chunked-same-object", got[i] == whole[i])
		}
	}
	zzverif.Reach("end")
}
