//go:build verif

package apiclient

import (
	"bytes"
	"compress/gzip"
	"encoding/json"
	"fmt"
	"io"
	"net/http"
	"net/http/httptest"

	"github.com/go-logr/logr"
	"github.com/wrgl/wrgl/pkg/api/payload"
	apiutils "github.com/wrgl/wrgl/pkg/api/utils"
	"github.com/wrgl/wrgl/pkg/encoding/packfile"
	"github.com/wrgl/wrgl/pkg/objects"
	"github.com/wrgl/wrgl/pkg/pbar"
	"github.com/wrgl/wrgl/pkg/zzverif"
	"github.com/wrgl/wrgl/pkg/zzverif/zzrepo"
)

// C09 (push direction): the real client-side ReceivePackSession (ClosedSetsFinder
// over the client's history with the remote refs as haves, table negotiation,
// ObjectSender, gzip, packfile splitting) against a REFERENCE SERVER written in this
// harness from the repository's own ObjectReceiver: it acknowledges the tables it
// has, feeds every packfile to the receiver and, once the receiver reports the
// expected commits complete, moves the refs and reports.
//
// Under gosym (*Client).PostReceivePack, (*Client).Request and
// parseReceivePackResponse are replaced by direct calls into the reference server
// (gzip runs for real inside the interpreter); the native replay puts the same
// server behind net/http/httptest and uses the real Client with HTTP and JSON.

type zz9pServer struct {
	db       *zzrepo.ObjStore
	rs       *zzrepo.RefStore
	updates  map[string]*payload.Update
	receiver *apiutils.ObjectReceiver
	packs    int
	finished bool
}

var zz9pSrv *zz9pServer
var zz9pLast *payload.ReceivePackResponse

func (s *zz9pServer) finish() *payload.ReceivePackResponse {
	for name, u := range s.updates {
		key := name
		if len(key) > 5 && key[:5] == "refs/" {
			key = key[5:]
		}
		if u.Sum == nil {
			delete(s.rs.Refs, key)
		} else {
			s.rs.Refs[key] = append([]byte{}, (*u.Sum)[:]...)
		}
	}
	s.finished = true
	return &payload.ReceivePackResponse{Updates: s.updates}
}

func (s *zz9pServer) negotiate(updates map[string]*payload.Update, tableHaves [][]byte) (*payload.ReceivePackResponse, error) {
	if updates != nil {
		s.updates = updates
		var expected [][]byte
		for _, u := range updates {
			if u.Sum != nil && !objects.CommitExist(s.db, (*u.Sum)[:]) {
				expected = append(expected, append([]byte{}, (*u.Sum)[:]...))
			}
		}
		if len(expected) == 0 {
			return s.finish(), nil
		}
		s.receiver = apiutils.NewObjectReceiver(s.db, expected, logr.Discard())
	}
	resp := &payload.ReceivePackResponse{}
	for _, t := range tableHaves {
		if objects.TableExist(s.db, t) {
			h := &payload.Hex{}
			copy((*h)[:], t)
			resp.TableACKs = append(resp.TableACKs, h)
		}
	}
	return resp, nil
}

func (s *zz9pServer) receive(pack []byte) (*payload.ReceivePackResponse, error) {
	if s.receiver == nil {
		return nil, fmt.Errorf("packfile before negotiation")
	}
	s.packs++
	pr, err := packfile.NewPackfileReader(io.NopCloser(bytes.NewReader(pack)))
	if err != nil {
		return nil, err
	}
	done, err := s.receiver.Receive(pr, nil)
	if err != nil {
		return nil, err
	}
	if done {
		return s.finish(), nil
	}
	return &payload.ReceivePackResponse{}, nil
}

func zz9pOK() *http.Response {
	return &http.Response{StatusCode: http.StatusOK, Body: io.NopCloser(bytes.NewReader(nil))}
}

// replacements under gosym
func zz9pPostReceivePack(c *Client, updates map[string]*payload.Update, tableHaves [][]byte, opts ...RequestOption) (*http.Response, error) {
	r, err := zz9pSrv.negotiate(updates, tableHaves)
	if err != nil {
		return nil, err
	}
	zz9pLast = r
	return zz9pOK(), nil
}

func zz9pRequest(c *Client, method, path string, body *ReplayableBuffer, headers map[string]string, opts ...RequestOption) (*http.Response, error) {
	body.Seek(0, io.SeekStart)
	gr, err := gzip.NewReader(body)
	if err != nil {
		return nil, err
	}
	b, err := io.ReadAll(gr)
	if err != nil {
		return nil, err
	}
	r, err := zz9pSrv.receive(b)
	if err != nil {
		return nil, err
	}
	zz9pLast = r
	return zz9pOK(), nil
}

func zz9pParse(resp *http.Response) (*payload.ReceivePackResponse, error) {
	resp.Body.Close()
	return zz9pLast, nil
}

// the same server behind HTTP for the native replay
func (s *zz9pServer) ServeHTTP(w http.ResponseWriter, r *http.Request) {
	var resp *payload.ReceivePackResponse
	var err error
	if r.Header.Get("Content-Type") == CTPackfile {
		var body io.Reader = r.Body
		if r.Header.Get("Content-Encoding") == "gzip" {
			gr, gerr := gzip.NewReader(r.Body)
			if gerr != nil {
				http.Error(w, gerr.Error(), 400)
				return
			}
			body = gr
		}
		b, _ := io.ReadAll(body)
		resp, err = s.receive(b)
	} else {
		req := &payload.ReceivePackRequest{}
		b, _ := io.ReadAll(r.Body)
		if err := json.Unmarshal(b, req); err != nil {
			http.Error(w, err.Error(), 400)
			return
		}
		resp, err = s.negotiate(req.Updates, payload.HexSliceToBytesSlice(req.TableHaves))
	}
	if err != nil {
		http.Error(w, err.Error(), 500)
		return
	}
	w.Header().Set("Content-Type", CTJSON)
	out, _ := json.Marshal(resp)
	w.Write(out)
}

func zz9pHex(b []byte) *payload.Hex {
	h := &payload.Hex{}
	copy((*h)[:], b)
	return h
}

func Harness_C09_push() {
	n := zzverif.Param("n", 3)
	// the client's repository: the whole history
	ldb, lrs := zzrepo.NewObjStore(), zzrepo.NewRefStore()
	h := &zz9Hist{n: n, edges: make([][]bool, n)}
	for i := 0; i < n; i++ {
		h.edges[i] = make([]bool, n)
		var ps [][]byte
		for j := 0; j < i; j++ {
			if zzverif.Bool("edge") {
				h.edges[i][j] = true
				ps = append(ps, h.commits[j].Sum)
			}
		}
		tblRows := [][]string{{fmt.Sprintf("k%d", i), "v"}, {"z", fmt.Sprintf("w%d", i)}}
		if zzverif.Param("sharedTables", 0) == 1 && i > 0 && i%2 == 0 {
			// a commit that carries the same table as an earlier one
			tblRows = [][]string{{fmt.Sprintf("k%d", i-1), "v"}, {"z", fmt.Sprintf("w%d", i-1)}}
		}
		sum, tbl := zzrepo.SaveTable(ldb, []string{"a", "b"}, []uint32{0}, tblRows, 255)
		_, c := zzrepo.SaveCommit(ldb, sum, fmt.Sprintf("c%d", i), int64(1600000000+100*i), ps...)
		h.commits = append(h.commits, c)
		h.tables = append(h.tables, sum)
		h.tbls = append(h.tbls, tbl)
	}
	tips := []int{n - 1}
	lrs.Refs["heads/main"] = h.commits[n-1].Sum
	if n > 1 && zzverif.Bool("secondRef") {
		t := zzverif.Choose("secondTip", n-1)
		lrs.Refs["heads/other"] = h.commits[t].Sum
		tips = append(tips, t)
	}
	// what the remote already has: an ancestor-closed set of full commits with refs on them
	sdb, srs := zzrepo.NewObjStore(), zzrepo.NewRefStore()
	has := make([]bool, n)
	remoteRefs := map[string][]byte{}
	for i := 0; i < n; i++ {
		if zzverif.Bool("remoteHas") {
			ok := true
			for j := 0; j < i; j++ {
				if h.edges[i][j] && !has[j] {
					ok = false
				}
			}
			zzverif.Assume(ok)
			has[i] = true
			zz9Copy(sdb, ldb, h, i, true)
			name := fmt.Sprintf("heads/b%d", i)
			srs.Refs[name] = h.commits[i].Sum
			remoteRefs[name] = h.commits[i].Sum
		}
	}
	// a table the remote happens to have although it lacks the commit
	if zzverif.Param("strayTable", 0) == 1 && !has[n-1] {
		for _, p := range []string{"tbl/", "tblidx/", "tblsum/"} {
			zzrepo.CopyKey(sdb, ldb, p+string(h.tables[n-1]))
		}
		for k, b := range h.tbls[n-1].Blocks {
			zzrepo.CopyKey(sdb, ldb, "blk/"+string(b))
			zzrepo.CopyKey(sdb, ldb, "blkidx/"+string(h.tbls[n-1].BlockIndices[k]))
		}
	}
	before := map[string][]byte{}
	for k, v := range sdb.M {
		before[k] = v
	}
	updates := map[string]*payload.Update{}
	needed := false
	names := []string{"refs/heads/main", "refs/heads/other"}
	for x, t := range tips {
		u := &payload.Update{Sum: zz9pHex(h.commits[t].Sum)}
		if old, ok := srs.Refs[names[x][5:]]; ok {
			u.OldSum = zz9pHex(old)
		}
		updates[names[x]] = u
		if !has[t] {
			needed = true
		}
	}
	zzverif.Assume(needed)
	srv := &zz9pServer{db: sdb, rs: srs}
	zz9pSrv = srv
	var c *Client
	if zzverif.UnderGosym() {
		c = &Client{logger: logr.Discard()}
	} else {
		ts := httptest.NewServer(srv)
		defer ts.Close()
		var err error
		c, err = NewClient(ts.URL, logr.Discard())
		if err != nil {
			panic(err)
		}
	}
	maxPack := zzverif.Uint64("maxPackfileSize")
	ses, err := NewReceivePackSession(ldb, lrs, c, updates, remoteRefs, maxPack)
	zzverif.Assert("session-created", err == nil)
	if err != nil {
		return
	}
	pc := pbar.NewContainer(io.Discard, true)
	result, err := ses.Start(pc)
	zzverif.Assert("push-succeeds", err == nil)
	if err != nil {
		return
	}
	zzverif.Assert("server-finished", srv.finished)
	for name, u := range result {
		_ = name
		zzverif.Assert("no-update-reported-as-failed", u.ErrMsg == "")
	}
	for x, t := range tips {
		zzverif.Assert("remote-ref-points-at-the-pushed-commit", bytes.Equal(srs.Refs[names[x][5:]], h.commits[t].Sum))
		for y := 0; y < n; y++ {
			if !h.reach(t, y) {
				continue
			}
			a, okA := ldb.M["com/"+string(h.commits[y].Sum)]
			b, okB := sdb.M["com/"+string(h.commits[y].Sum)]
			zzverif.Assert("every-ancestor-of-a-pushed-ref-exists-on-the-remote-and-is-identical", okA && okB && bytes.Equal(a, b))
			ta, okTA := ldb.M["tbl/"+string(h.tables[y])]
			tb, okTB := sdb.M["tbl/"+string(h.tables[y])]
			zzverif.Assert("table-present-and-identical-on-the-remote", okTA && okTB && bytes.Equal(ta, tb))
			for k, blk := range h.tbls[y].Blocks {
				ba, bb := ldb.M["blk/"+string(blk)], sdb.M["blk/"+string(blk)]
				zzverif.Assert("blocks-present-and-identical-on-the-remote", bb != nil && bytes.Equal(ba, bb))
				zzverif.Assert("block-indices-present-on-the-remote", sdb.M["blkidx/"+string(h.tbls[y].BlockIndices[k])] != nil)
			}
			zzverif.Assert("table-index-present-on-the-remote", objects.TableIndexExist(sdb, h.tables[y]))
		}
	}
	keys, _ := objects.GetAllCommitKeys(sdb)
	for _, k := range keys {
		cm, err := objects.GetCommit(sdb, k)
		if err == nil {
			for _, p := range cm.Parents {
				zzverif.Assert("stored-commit-has-its-parents", objects.CommitExist(sdb, p))
			}
		}
	}
	for k, v := range before {
		zzverif.Assert("nothing-the-remote-had-is-changed", bytes.Equal(sdb.M[k], v))
	}
	for y := 0; y < n; y++ {
		reachable := false
		for _, t := range tips {
			if h.reach(t, y) {
				reachable = true
			}
		}
		if !reachable && !has[y] {
			_, ok := sdb.M["com/"+string(h.commits[y].Sum)]
			zzverif.Assert("nothing-unreachable-from-the-pushed-refs-is-transferred", !ok)
		}
	}
	// an immediately repeated push transfers nothing and changes nothing
	after := len(sdb.M)
	packs := srv.packs
	remote2 := map[string][]byte{}
	for k, v := range srs.Refs {
		remote2[k] = v
	}
	updates2 := map[string]*payload.Update{}
	for x, t := range tips {
		updates2[names[x]] = &payload.Update{Sum: zz9pHex(h.commits[t].Sum), OldSum: zz9pHex(h.commits[t].Sum)}
	}
	srv2 := &zz9pServer{db: sdb, rs: srs}
	zz9pSrv = srv2
	if !zzverif.UnderGosym() {
		ts2 := httptest.NewServer(srv2)
		defer ts2.Close()
		c, _ = NewClient(ts2.URL, logr.Discard())
	}
	ses2, err := NewReceivePackSession(ldb, lrs, c, updates2, remote2, maxPack)
	zzverif.Assert("repeated-push-session-created", err == nil)
	if err == nil {
		_, err = ses2.Start(pc)
		zzverif.Assert("repeated-push-succeeds", err == nil)
		zzverif.Assert("repeated-push-transfers-nothing", srv2.packs == 0 && len(sdb.M) == after)
		for x, t := range tips {
			zzverif.Assert("repeated-push-changes-no-ref", bytes.Equal(srs.Refs[names[x][5:]], h.commits[t].Sum))
		}
	}
	zzverif.Observe("packs", packs)
	if packs > 1 {
		zzverif.Reach("several-packfiles")
	}
	zzverif.Reach("end")
}
