//go:build verif

package apiclient

import (
	"bytes"
	"encoding/json"
	"fmt"
	"io"
	"net/http"
	"net/http/httptest"

	"github.com/go-logr/logr"
	"github.com/wrgl/wrgl/pkg/api/payload"
	apiutils "github.com/wrgl/wrgl/pkg/api/utils"
	"github.com/wrgl/wrgl/pkg/encoding/packfile"
	"github.com/wrgl/wrgl/pkg/objects"
	"github.com/wrgl/wrgl/pkg/ref"
	"github.com/wrgl/wrgl/pkg/zzverif"
	"github.com/wrgl/wrgl/pkg/zzverif/zzrepo"
)

// C09 (fetch direction): the real client-side UploadPackSession (negotiation
// rounds with popHaves / RemoveAncestors, table negotiation, packfile reception
// through ObjectReceiver) against a REFERENCE SERVER written in this harness from
// the repository's own ClosedSetsFinder and ObjectSender. The server is not part of
// this repository (wrgld lives elsewhere), so it belongs to the trusted base of this
// check; its behaviour follows what the client code expects from each response.
//
// Under gosym (*Client).PostUploadPack is replaced by a direct call into the
// reference server; in the native replay the same server sits behind a real
// net/http/httptest server and the real Client (HTTP + JSON) is used.

type zz9Server struct {
	db      objects.Store
	rs      ref.Store
	maxPack uint64
	finder  *apiutils.ClosedSetsFinder
	sender  *apiutils.ObjectSender
	tables  map[string]struct{}
	commits []*objects.Commit
	state   int // 0 negotiating commits, 1 waiting for table ACKs, 2 sending
	packs   int
}

var zz9Srv *zz9Server

func (s *zz9Server) startSending() error {
	var err error
	s.sender, err = apiutils.NewObjectSender(s.db, s.commits, s.tables, s.finder.CommonCommmits(), s.maxPack)
	s.state = 2
	return err
}

func (s *zz9Server) pack() ([]byte, error) {
	buf := bytes.NewBuffer(nil)
	_, _, err := s.sender.WriteObjects(buf, nil)
	s.packs++
	return buf.Bytes(), err
}

// uploadPack answers one /upload-pack/ request: either a JSON response or packfile bytes.
func (s *zz9Server) uploadPack(req *payload.UploadPackRequest) (*payload.UploadPackResponse, []byte, error) {
	switch s.state {
	case 2:
		b, err := s.pack()
		return nil, b, err
	case 1:
		for _, h := range req.TableACKs {
			delete(s.tables, string((*h)[:]))
		}
		if err := s.startSending(); err != nil {
			return nil, nil, err
		}
		b, err := s.pack()
		return nil, b, err
	}
	if s.finder == nil {
		s.finder = apiutils.NewClosedSetsFinder(s.db, s.rs, req.Depth)
	}
	acks, err := s.finder.Process(payload.HexSliceToBytesSlice(req.Wants), payload.HexSliceToBytesSlice(req.Haves), req.Done)
	if err != nil {
		return nil, nil, err
	}
	if len(s.finder.Wants) > 0 && !req.Done {
		return &payload.UploadPackResponse{ACKs: payload.BytesSliceToHexSlice(acks)}, nil, nil
	}
	if s.commits, err = s.finder.CommitsToSend(); err != nil {
		return nil, nil, err
	}
	if s.tables, err = s.finder.TablesToSend(); err != nil {
		return nil, nil, err
	}
	if len(s.tables) > 0 {
		s.state = 1
		var th [][]byte
		for t := range s.tables {
			th = append(th, []byte(t))
		}
		return &payload.UploadPackResponse{TableHaves: payload.BytesSliceToHexSlice(th)}, nil, nil
	}
	if err := s.startSending(); err != nil {
		return nil, nil, err
	}
	b, err := s.pack()
	return nil, b, err
}

// zz9PostUploadPack replaces (*Client).PostUploadPack under gosym.
func zz9PostUploadPack(c *Client, req *payload.UploadPackRequest, opts ...RequestOption) (*payload.UploadPackResponse, *packfile.PackfileReader, error) {
	upr, pack, err := zz9Srv.uploadPack(req)
	if err != nil {
		return nil, nil, err
	}
	if pack != nil {
		pr, err := packfile.NewPackfileReader(io.NopCloser(bytes.NewReader(pack)))
		return nil, pr, err
	}
	return upr, nil, nil
}

func (s *zz9Server) ServeHTTP(w http.ResponseWriter, r *http.Request) {
	req := &payload.UploadPackRequest{}
	b, _ := io.ReadAll(r.Body)
	if err := json.Unmarshal(b, req); err != nil {
		http.Error(w, err.Error(), 400)
		return
	}
	upr, pack, err := s.uploadPack(req)
	if err != nil {
		http.Error(w, err.Error(), 500)
		return
	}
	if pack != nil {
		w.Header().Set("Content-Type", CTPackfile)
		w.Write(pack)
		return
	}
	w.Header().Set("Content-Type", CTJSON)
	out, _ := json.Marshal(upr)
	w.Write(out)
}

type zz9Hist struct {
	n       int
	edges   [][]bool
	commits []*objects.Commit
	tables  [][]byte
	tbls    []*objects.Table
}

func (h *zz9Hist) reach(from, to int) bool {
	if from == to {
		return true
	}
	for j := 0; j < from; j++ {
		if h.edges[from][j] && h.reach(j, to) {
			return true
		}
	}
	return false
}

func (h *zz9Hist) dist(from, to int) int {
	if from == to {
		return 0
	}
	best := -1
	for j := 0; j < from; j++ {
		if h.edges[from][j] {
			if d := h.dist(j, to); d >= 0 && (best < 0 || d+1 < best) {
				best = d + 1
			}
		}
	}
	return best
}

func zz9Copy(dst, src *zzrepo.ObjStore, h *zz9Hist, i int, withTable bool) {
	zzrepo.CopyKey(dst, src, "com/"+string(h.commits[i].Sum))
	if !withTable {
		return
	}
	t := h.tables[i]
	for _, p := range []string{"tbl/", "tblidx/", "tblsum/"} {
		zzrepo.CopyKey(dst, src, p+string(t))
	}
	for k, b := range h.tbls[i].Blocks {
		zzrepo.CopyKey(dst, src, "blk/"+string(b))
		zzrepo.CopyKey(dst, src, "blkidx/"+string(h.tbls[i].BlockIndices[k]))
	}
}

func Harness_C09_fetch() {
	n := zzverif.Param("n", 3)
	depth := zzverif.Param("depth", 0)
	havesPer := zzverif.Param("haves", 2)
	sdb, srs := zzrepo.NewObjStore(), zzrepo.NewRefStore()
	h := &zz9Hist{n: n, edges: make([][]bool, n)}
	for i := 0; i < n; i++ {
		h.edges[i] = make([]bool, n)
		var ps [][]byte
		for j := 0; j < i; j++ {
			if zzverif.Bool("edge") {
				h.edges[i][j] = true
				ps = append(ps, h.commits[j].Sum)
			}
		}
		ti := i
		if zzverif.Param("reuseTip", 0) == 1 && i == n-1 && i > 0 {
			ti = i - 1 // the newest commit carries the same table as the one before it
		}
		sum, tbl := zzrepo.SaveTable(sdb, []string{"a", "b"}, []uint32{0}, [][]string{{fmt.Sprintf("k%d", ti), "v"}, {"z", fmt.Sprintf("w%d", ti)}}, 255)
		_, c := zzrepo.SaveCommit(sdb, sum, fmt.Sprintf("c%d", i), int64(1600000000+100*i), ps...)
		h.commits = append(h.commits, c)
		h.tables = append(h.tables, sum)
		h.tbls = append(h.tbls, tbl)
	}
	// server refs: the last commit, and optionally another tip
	tips := []int{n - 1}
	srs.Refs["heads/main"] = h.commits[n-1].Sum
	if n > 1 && zzverif.Bool("secondRef") {
		t := zzverif.Choose("secondTip", n-1)
		srs.Refs["heads/other"] = h.commits[t].Sum
		tips = append(tips, t)
	}
	// what the client already has: an ancestor-closed set of full commits, with refs on its tips
	ldb, lrs := zzrepo.NewObjStore(), zzrepo.NewRefStore()
	has := make([]bool, n)
	for i := 0; i < n; i++ {
		if zzverif.Bool("clientHas") {
			ok := true
			for j := 0; j < i; j++ {
				if h.edges[i][j] && !has[j] {
					ok = false
				}
			}
			zzverif.Assume(ok)
			has[i] = true
			// shallow=1: a commit the client has may lack its table (left by an earlier
			// depth-limited fetch)
			full := true
			if zzverif.Param("shallow", 0) == 1 && zzverif.Bool("clientShallow") {
				full = false
			}
			zz9Copy(ldb, sdb, h, i, full)
			lrs.Refs[fmt.Sprintf("remotes/origin/b%d", i)] = h.commits[i].Sum
		}
	}
	var advertised [][]byte
	wanted := false
	for _, t := range tips {
		advertised = append(advertised, h.commits[t].Sum)
		if !has[t] {
			wanted = true
		}
	}
	zzverif.Assume(wanted)
	nested := false
	for _, t1 := range tips {
		for _, t2 := range tips {
			if t1 != t2 && !has[t1] && !has[t2] && h.reach(t1, t2) {
				nested = true
			}
		}
	}
	zzverif.Region("depth-limited-fetch-where-one-wanted-tip-is-an-ancestor-of-another", depth > 0 && nested)
	srv := &zz9Server{db: sdb, rs: srs, maxPack: zzverif.Uint64("maxPackfileSize")}
	zz9Srv = srv
	var c *Client
	if zzverif.UnderGosym() {
		c = &Client{logger: logr.Discard()}
	} else {
		ts := httptest.NewServer(srv)
		defer ts.Close()
		var err error
		c, err = NewClient(ts.URL, logr.Discard())
		if err != nil {
			panic(err)
		}
	}
	ses, err := NewUploadPackSession(ldb, lrs, c, advertised, WithUploadPackDepth(depth), WithUploadPackHavesPerRoundTrip(havesPer))
	zzverif.Assert("session-created", err == nil)
	if err != nil {
		return
	}
	_, err = ses.Start()
	zzverif.Assert("fetch-succeeds", err == nil)
	if err != nil {
		return
	}
	// every fetched tip has its whole history locally, with tables within the requested depth
	for _, t := range tips {
		for x := 0; x < n; x++ {
			if !h.reach(t, x) {
				continue
			}
			a, okA := sdb.M["com/"+string(h.commits[x].Sum)]
			b, okB := ldb.M["com/"+string(h.commits[x].Sum)]
			zzverif.Assert("every-ancestor-of-a-fetched-tip-exists-locally-and-is-identical", okA && okB && bytes.Equal(a, b))
		}
	}
	for x := 0; x < n; x++ {
		if has[x] {
			continue
		}
		within := false
		for _, t := range tips {
			if has[t] {
				continue
			}
			if d := h.dist(t, x); d >= 0 && (depth == 0 || d < depth) {
				within = true
			}
		}
		if within {
			ta, okA := sdb.M["tbl/"+string(h.tables[x])]
			tb, okB := ldb.M["tbl/"+string(h.tables[x])]
			zzverif.Assert("table-present-and-identical-for-commits-within-depth", okA && okB && bytes.Equal(ta, tb))
			for k, blk := range h.tbls[x].Blocks {
				ba, bb := sdb.M["blk/"+string(blk)], ldb.M["blk/"+string(blk)]
				zzverif.Assert("blocks-present-and-identical", bb != nil && bytes.Equal(ba, bb))
				zzverif.Assert("block-indices-rebuilt", ldb.M["blkidx/"+string(h.tbls[x].BlockIndices[k])] != nil)
			}
			zzverif.Assert("table-index-rebuilt", objects.TableIndexExist(ldb, h.tables[x]))
		}
	}
	// every stored commit has its parents (nothing accepted with a missing parent)
	keys, _ := objects.GetAllCommitKeys(ldb)
	for _, k := range keys {
		cm, err := objects.GetCommit(ldb, k)
		if err == nil {
			for _, p := range cm.Parents {
				zzverif.Assert("stored-commit-has-its-parents", objects.CommitExist(ldb, p))
			}
		}
	}
	// an immediately repeated fetch transfers nothing
	_, err = NewUploadPackSession(ldb, lrs, c, advertised, WithUploadPackDepth(depth))
	zzverif.Assert("repeated-fetch-wants-nothing", err != nil)
	zzverif.Observe("packs", srv.packs)
	if srv.packs > 1 {
		zzverif.Reach("several-packfiles")
	}
	zzverif.Reach("end")
}
