//go:build verif

package apiutils

import (
	"bytes"
	"io"

	"github.com/go-logr/logr"
	"github.com/klauspost/compress/s2"
	"github.com/wrgl/wrgl/pkg/encoding/packfile"
	"github.com/wrgl/wrgl/pkg/objects"
	"github.com/wrgl/wrgl/pkg/zzverif"
	"github.com/wrgl/wrgl/pkg/zzverif/zzrepo"
)

// C17 (object receiver): a packfile written by the real ObjectSender for a small
// repository is damaged and fed to the real ObjectReceiver:
//   mode 0: cut at a position the explorer chooses and continued with K symbolic bytes;
//   mode 1: one byte at a position the explorer chooses replaced by a symbolic byte;
//   mode 2: an extra block object whose DECOMPRESSED content is K arbitrary bytes is put
//           in front (the engine's model of s2 returns the payload of a tagged buffer).
// Whatever Receive answers (done, not done, error) it must not panic, loop or allocate
// out of proportion, and what it leaves in the store must hang together: a table that is
// present has all its blocks, block indices and its table index; a commit that is
// present has its parents; nothing the destination had is changed.

func zz17Consistent(dst objects.Store) {
	tkeys, _ := objects.GetAllTableKeys(dst)
	for _, k := range tkeys {
		t, err := objects.GetTable(dst, k)
		zzverif.Assert("stored-table-readable", err == nil)
		if err != nil {
			continue
		}
		for i, b := range t.Blocks {
			zzverif.Assert("stored-table-has-all-blocks", objects.BlockExist(dst, b))
			zzverif.Assert("stored-table-has-all-block-indices", i < len(t.BlockIndices) && objects.BlockIndexExist(dst, t.BlockIndices[i]))
		}
		zzverif.Assert("stored-table-has-its-table-index", objects.TableIndexExist(dst, k))
	}
	ckeys, _ := objects.GetAllCommitKeys(dst)
	for _, k := range ckeys {
		c, err := objects.GetCommit(dst, k)
		zzverif.Assert("stored-commit-readable", err == nil)
		if err == nil {
			for _, p := range c.Parents {
				zzverif.Assert("stored-commit-has-its-parents", objects.CommitExist(dst, p))
			}
		}
	}
}

func Harness_C17_receiver() {
	sc := zzBuild(zzverif.Param("scenario", 0))
	n := len(sc.commits)
	tables := map[string]struct{}{}
	for i := 0; i < n; i++ {
		tables[string(sc.tables[i])] = struct{}{}
	}
	sender, err := NewObjectSender(sc.src, sc.commits, tables, nil, 0)
	if err != nil {
		panic(err)
	}
	buf := bytes.NewBuffer(nil)
	if _, _, err := sender.WriteObjects(buf, nil); err != nil {
		panic(err)
	}
	valid := buf.Bytes()
	var b []byte
	switch zzverif.Param("mode", 0) {
	case 0:
		cut := zzverif.Choose("cut", len(valid)+1)
		b = append(append([]byte{}, valid[:cut]...), zzverif.Bytes("tail", zzverif.Param("K", 2))...)
	case 1:
		pos := zzverif.Choose("pos", len(valid))
		b = append([]byte{}, valid...)
		b[pos] = zzverif.Byte("flip")
	case 2:
		k := zzverif.Param("K", 4)
		// compressed by the real encoder (natively) / tagged by the engine's model of it
		payload := s2.EncodeBetter(nil, zzverif.Bytes("block", k))
		hdr := bytes.NewBuffer(nil)
		w, err := packfile.NewPackfileWriter(hdr)
		if err != nil {
			panic(err)
		}
		if _, err := w.WriteObject(packfile.ObjectBlock, payload); err != nil {
			panic(err)
		}
		// the writer put the 8-byte magic/version in front of the object: keep it, then
		// the objects of the valid packfile
		b = append(append([]byte{}, hdr.Bytes()...), valid[8:]...)
	}
	dst := zzrepo.NewObjStore() // hashes run in ids mode: identifiers of damaged objects are concrete
	pr, err := packfile.NewPackfileReader(io.NopCloser(bytes.NewReader(b)))
	if err != nil {
		zzverif.Reach("end")
		return
	}
	recv := NewObjectReceiver(dst, [][]byte{sc.commits[n-1].Sum}, logr.Discard())
	done, err := recv.Receive(pr, nil)
	if err == nil && done {
		zzverif.Assert("done-means-the-expected-commit-is-there", objects.CommitExist(dst, sc.commits[n-1].Sum))
	}
	for _, c := range recv.ReceivedCommits {
		zzverif.Assert("reported-commit-is-stored", objects.CommitExist(dst, c))
	}
	zz17Consistent(dst)
	if err != nil {
		zzverif.Reach("rejected")
	}
	zzverif.Reach("end")
}
