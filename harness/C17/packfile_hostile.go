//go:build verif

package packfile

import (
	"bytes"
	"io"

	"github.com/wrgl/wrgl/pkg/zzverif"
)

// C17: a hostile byte stream handed to the packfile reader.
func Harness_C17_PackfileReader() {
	n := zzverif.Param("N", 10)
	b := zzverif.Bytes("b", n)
	// the magic is fixed so that paths get past it; it is 8 of the N bytes
	if n >= 4 && zzverif.Param("magic", 1) == 1 {
		copy(b, []byte("PACK"))
	}
	pr, err := NewPackfileReader(io.NopCloser(bytes.NewReader(b)))
	if err != nil {
		zzverif.Reach("end")
		return
	}
	for i := 0; i <= n; i++ {
		ot, _, err := pr.ReadObject()
		if err != nil || ot == 0 {
			break
		}
	}
	zzverif.Reach("end")
}
