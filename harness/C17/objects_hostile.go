//go:build verif

package objects

import (
	"bytes"
	"time"

	"github.com/wrgl/wrgl/pkg/zzverif"
)

// C17: every decoder entry point of package objects is fed a fully symbolic
// buffer of N bytes (N is a driver parameter). The property per path is
// "returns (value or error)": any panic, step-budget exhaustion or allocation
// out of proportion to N is reported by the engine itself.

func hostile(n int) []byte { return zzverif.Bytes("b", n) }

func Harness_C17_ValidateBlockBytes() {
	b := hostile(zzverif.Param("N", 8))
	_ = ValidateBlockBytes(b)
	zzverif.Reach("end")
}

func Harness_C17_ValidateStrListBytes() {
	b := hostile(zzverif.Param("N", 8))
	_, _ = ValidateStrListBytes(b)
	zzverif.Reach("end")
}

func Harness_C17_StrListRead() {
	b := hostile(zzverif.Param("N", 8))
	_, _, _ = NewStrListDecoder(false).Read(bytes.NewReader(b))
	zzverif.Reach("end")
}

func Harness_C17_StrListReadBytes() {
	b := hostile(zzverif.Param("N", 8))
	_, _, _ = NewStrListDecoder(false).ReadBytes(bytes.NewReader(b))
	zzverif.Reach("end")
}

func Harness_C17_ReadBlockFrom() {
	b := hostile(zzverif.Param("N", 8))
	_, _, _ = ReadBlockFrom(bytes.NewReader(b))
	zzverif.Reach("end")
}

func Harness_C17_ReadBlockIndex() {
	b := hostile(zzverif.Param("N", 8))
	_, _, _ = ReadBlockIndex(bytes.NewReader(b))
	zzverif.Reach("end")
}

func Harness_C17_UintListRead() {
	b := hostile(zzverif.Param("N", 8))
	_, _, _ = NewUintListDecoder(false).Read(bytes.NewReader(b))
	zzverif.Reach("end")
}

// ---- text-framed objects: commit, table, table profile -------------------------------
//
// Their encodings are long (labelled lines), so a short fully symbolic buffer only
// reaches the first label check. Two kinds of input are used instead:
//   - "prefix": a VALID encoding (written by the real encoder) cut at a position the
//     explorer chooses, followed by K fully symbolic bytes (truncation + adversarial tail);
//   - "flip": a valid encoding in which ONE byte at a position the explorer chooses is
//     replaced by a symbolic byte (every value), optionally also truncated.

func zz17Mutate(valid []byte) []byte {
	mode := zzverif.Param("mode", 0)
	k := zzverif.Param("K", 2)
	switch mode {
	case 0: // valid prefix + symbolic tail
		cut := zzverif.Choose("cut", len(valid)+1)
		b := append([]byte{}, valid[:cut]...)
		return append(b, zzverif.Bytes("tail", k)...)
	default: // one symbolic byte inside a valid encoding, optional truncation
		pos := zzverif.Choose("pos", len(valid))
		b := append([]byte{}, valid...)
		b[pos] = zzverif.Byte("flip")
		if zzverif.Bool("truncate") {
			cut := zzverif.Choose("cut", len(valid)+1)
			b = b[:cut]
		}
		return b
	}
}

func zz17ValidCommit() []byte {
	c := &Commit{
		Table:       bytes.Repeat([]byte{0xab}, 16),
		AuthorName:  "a",
		AuthorEmail: "e",
		Message:     "m",
		Parents:     [][]byte{bytes.Repeat([]byte{0x01}, 16)},
	}
	c.Time = zz17Time()
	buf := bytes.NewBuffer(nil)
	if _, err := c.WriteTo(buf); err != nil {
		panic(err)
	}
	return buf.Bytes()
}

// zz17Store holds one value; the Get* functions of the package read the damaged bytes
// through it, as they would read a damaged object from the repository.
type zz17Store struct{ v []byte }

func (s *zz17Store) Get(k []byte) ([]byte, error)               { return s.v, nil }
func (s *zz17Store) Set(k, v []byte) error                      { return nil }
func (s *zz17Store) Delete(k []byte) error                      { return nil }
func (s *zz17Store) Exist(k []byte) bool                        { return true }
func (s *zz17Store) Filter(p []byte) (map[string][]byte, error) { return nil, nil }
func (s *zz17Store) FilterKey(p []byte) ([][]byte, error)       { return nil, nil }
func (s *zz17Store) Clear(p []byte) error                       { return nil }
func (s *zz17Store) Close() error                               { return nil }

func Harness_C17_ReadCommit() {
	b := zz17Mutate(zz17ValidCommit())
	_, _, _ = ReadCommitFrom(bytes.NewReader(b))
	// the same bytes read back from a store
	_, _ = GetCommit(&zz17Store{v: b}, bytes.Repeat([]byte{1}, 16))
	zzverif.Reach("end")
}

func zz17ValidTable() []byte {
	t := &Table{
		Columns:      []string{"a", "b"},
		PK:           []uint32{0},
		RowsCount:    256,
		Blocks:       [][]byte{bytes.Repeat([]byte{0x11}, 16), bytes.Repeat([]byte{0x12}, 16)},
		BlockIndices: [][]byte{bytes.Repeat([]byte{0x21}, 16), bytes.Repeat([]byte{0x22}, 16)},
	}
	buf := bytes.NewBuffer(nil)
	if _, err := t.WriteTo(buf); err != nil {
		panic(err)
	}
	return buf.Bytes()
}

func Harness_C17_ReadTable() {
	b := zz17Mutate(zz17ValidTable())
	_, _, _ = ReadTableFrom(bytes.NewReader(b))
	_, _ = GetTable(&zz17Store{v: b}, bytes.Repeat([]byte{1}, 16))
	zzverif.Reach("end")
}

func zz17ValidProfile() []byte {
	one := 1.5
	p := &TableProfile{
		RowsCount: 2,
		Columns: []*ColumnProfile{
			{Name: "a", NACount: 1, Min: &one, MaxStrLen: 3, TopValues: ValueCounts{{Value: "x", Count: 2}}, Percentiles: []float64{1, 2}},
		},
	}
	buf := bytes.NewBuffer(nil)
	if _, err := p.WriteTo(buf); err != nil {
		panic(err)
	}
	return buf.Bytes()
}

func Harness_C17_ReadProfile() {
	b := zz17Mutate(zz17ValidProfile())
	p := &TableProfile{}
	_, _ = p.ReadFrom(bytes.NewReader(b))
	_, _ = GetTableProfile(&zz17Store{v: b}, bytes.Repeat([]byte{1}, 16))
	zzverif.Reach("end")
}

func zz17Time() time.Time { return time.Unix(1600000000, 0).UTC() }
