//go:build verif

package objects

import (
	"bytes"

	"github.com/wrgl/wrgl/pkg/zzverif"
)

// C17: every decoder entry point of package objects is fed a fully symbolic
// buffer of N bytes (N is a driver parameter). The property per path is
// "returns (value or error)": any panic, step-budget exhaustion or allocation
// out of proportion to N is reported by the engine itself.

func hostile(n int) []byte { return zzverif.Bytes("b", n) }

func Harness_C17_ValidateBlockBytes() {
	b := hostile(zzverif.Param("N", 8))
	_ = ValidateBlockBytes(b)
	zzverif.Reach("end")
}

func Harness_C17_ValidateStrListBytes() {
	b := hostile(zzverif.Param("N", 8))
	_, _ = ValidateStrListBytes(b)
	zzverif.Reach("end")
}

func Harness_C17_StrListRead() {
	b := hostile(zzverif.Param("N", 8))
	_, _, _ = NewStrListDecoder(false).Read(bytes.NewReader(b))
	zzverif.Reach("end")
}

func Harness_C17_StrListReadBytes() {
	b := hostile(zzverif.Param("N", 8))
	_, _, _ = NewStrListDecoder(false).ReadBytes(bytes.NewReader(b))
	zzverif.Reach("end")
}

func Harness_C17_ReadBlockFrom() {
	b := hostile(zzverif.Param("N", 8))
	_, _, _ = ReadBlockFrom(bytes.NewReader(b))
	zzverif.Reach("end")
}

func Harness_C17_ReadBlockIndex() {
	b := hostile(zzverif.Param("N", 8))
	_, _, _ = ReadBlockIndex(bytes.NewReader(b))
	zzverif.Reach("end")
}

func Harness_C17_UintListRead() {
	b := hostile(zzverif.Param("N", 8))
	_, _, _ = NewUintListDecoder(false).Read(bytes.NewReader(b))
	zzverif.Reach("end")
}
