//go:build verif

package pktline

import (
	"bytes"

	"github.com/wrgl/wrgl/pkg/encoding"
	"github.com/wrgl/wrgl/pkg/zzverif"
)

func Harness_C17_ReadPktLine() {
	n := zzverif.Param("N", 6)
	b := zzverif.Bytes("b", n)
	p := encoding.NewParser(bytes.NewReader(b))
	for i := 0; i <= n; i++ {
		s, err := ReadPktLine(p)
		if err != nil || s == "" {
			break
		}
	}
	zzverif.Reach("end")
}
