//go:build verif

package sorter

import (
	"bytes"
	"context"

	"github.com/wrgl/wrgl/pkg/objects"
	"github.com/wrgl/wrgl/pkg/zzverif"
)

// C19 (and kernel K2 of C01): the real Sorter (AddRow, spill to chunk files,
// SortedBlocks / SortedRows k-way merge, adjacent-duplicate collapse, column
// removal) on rows of symbolic cells. The run size (memory limit) is ONE 64-bit
// solver variable, so every spill pattern from "everything spills" to "nothing
// spills" is covered; chunk files live in the engine's in-memory file model
// (real temp files in the native replay).

var zzPKs = [][]uint32{nil, {0}, {1}, {0, 1}, {1, 0}, {2, 0, 1}, {1, 2, 0}}

type zzCfg struct {
	nrows, ncols, pk, cellLen, removed int
	removed2                           int // a second removed column (> removed), -1 = none
	emptyKeyRow                        bool
	emptyCells                         bool
}

func zzInput(c zzCfg) [][]string {
	in := make([][]string, c.nrows)
	for i := range in {
		in[i] = make([]string, c.ncols)
		for j := range in[i] {
			l := c.cellLen
			if c.emptyKeyRow && i == 0 {
				l = 0
			}
			if c.emptyCells && zzverif.Bool("emptyCell") {
				// any cell may be empty (the explorer decides which)
				l = 0
			}
			if zzverif.Param("bigRow", 0) == i+1 && j == c.ncols-1 {
				// one row outweighs the others together: at some run size this row alone is
				// spilled and the rest stays in memory as an unsorted tail
				l = 12
			}
			in[i][j] = zzverif.String("cell", l)
		}
	}
	return in
}

func zzNewSorter(c zzCfg, runSize uint64) *Sorter {
	s, err := NewSorter(WithRunSize(runSize))
	if err != nil {
		panic(err)
	}
	cols := []string{"a", "b", "c"}[:c.ncols]
	s.Columns = cols // not SetColumns: the data profiler (float statistics, value-count maps) is outside the claim
	s.PK = zzPKs[c.pk]
	return s
}

func zzKeyCols(c zzCfg) []int {
	pk := zzPKs[c.pk]
	if len(pk) == 0 {
		all := make([]int, c.ncols)
		for i := range all {
			all[i] = i
		}
		return all
	}
	r := make([]int, len(pk))
	for i, u := range pk {
		r[i] = int(u)
	}
	return r
}

// keyEq / keyLess on full (un-removed) rows, branch-free.
func zzKeyEq(kc []int, a, b []string) bool {
	eq := true
	for _, k := range kc {
		eq = zzverif.And(eq, a[k] == b[k])
	}
	return eq
}

func zzKeyLess(kc []int, a, b []string) bool {
	less := false
	for x := len(kc) - 1; x >= 0; x-- {
		k := kc[x]
		less = zzverif.Or(a[k] < b[k], zzverif.And(a[k] == b[k], less))
	}
	return less
}

func zzRemove(row []string, removed int) []string { return zzRemove2(row, removed, -1) }

func zzRemove2(row []string, removed, removed2 int) []string {
	if removed < 0 && removed2 < 0 {
		return row
	}
	var r []string
	for i, s := range row {
		if i != removed && i != removed2 {
			r = append(r, s)
		}
	}
	return r
}

func zzRowEq(a, b []string) bool {
	if len(a) != len(b) {
		return false
	}
	eq := true
	for i := range a {
		eq = zzverif.And(eq, a[i] == b[i])
	}
	return eq
}

// zzCheck compares one sorted output with the oracle. out rows have the removed
// column dropped; kcOut are the key column positions inside an output row.
func zzCheck(tag string, c zzCfg, in, out [][]string) {
	kc := zzKeyCols(c)
	removed := c.removed
	// key columns as positions in the output rows
	var kcOut []int
	removed2 := c.removed2
	for _, k := range kc {
		if k == removed || k == removed2 {
			continue
		}
		shift := 0
		if removed >= 0 && k > removed {
			shift++
		}
		if removed2 >= 0 && k > removed2 {
			shift++
		}
		kcOut = append(kcOut, k-shift)
	}
	for j := 1; j < len(out); j++ {
		zzverif.Assert(tag+"strictly-ascending-by-key", zzKeyLess(kcOut, out[j-1], out[j]))
	}
	for i := range in {
		cnt := 0
		for j := range out {
			cnt += zzverif.B2I(zzKeyEq(kcOut, zzRemove2(in[i], removed, removed2), out[j]))
		}
		zzverif.Assert(tag+"every-input-key-present-exactly-once", cnt == 1)
	}
	for j := range out {
		found := false
		for i := range in {
			found = zzverif.Or(found, zzRowEq(zzRemove2(in[i], removed, removed2), out[j]))
		}
		zzverif.Assert(tag+"every-output-row-is-an-input-row-without-removed-columns", found)
	}
}

func zzRemovedMap(c zzCfg) map[int]struct{} {
	if c.removed < 0 {
		return nil
	}
	m := map[int]struct{}{c.removed: {}}
	if c.removed2 >= 0 {
		m[c.removed2] = struct{}{}
	}
	return m
}

func zzBlocks(s *Sorter, c zzCfg) [][]string {
	errCh := make(chan error, 1)
	var out [][]string
	for b := range s.SortedBlocks(context.Background(), zzRemovedMap(c), errCh) {
		_, blk, err := objects.ReadBlockFrom(bytes.NewReader(b.Block))
		if err != nil {
			panic(err)
		}
		zzverif.Assert("block-row-count-matches", len(blk) == b.RowsCount)
		out = append(out, blk...)
	}
	select {
	case err := <-errCh:
		panic(err)
	default:
	}
	return out
}

func zzRowsOut(s *Sorter, c zzCfg) [][]string {
	errCh := make(chan error, 1)
	var out [][]string
	for r := range s.SortedRows(context.Background(), zzRemovedMap(c), errCh) {
		for _, row := range r.Rows {
			cp := make([]string, len(row))
			copy(cp, row)
			out = append(out, cp)
		}
	}
	select {
	case err := <-errCh:
		panic(err)
	default:
	}
	return out
}

func zzParams() zzCfg {
	return zzCfg{nrows: zzverif.Param("rows", 2), ncols: zzverif.Param("cols", 2), pk: zzverif.Param("pk", 1), cellLen: zzverif.Param("cellLen", 1),
		removed: zzverif.Param("removed", -1), removed2: zzverif.Param("removed2", -1), emptyKeyRow: zzverif.Param("emptyKey", 0) == 1, emptyCells: zzverif.Param("emptyCells", 0) == 1}
}

func zzRegions(c zzCfg, in [][]string) {
	kc := zzKeyCols(c)
	emptyKey := false
	for i := range in {
		e := true
		for _, k := range kc {
			e = zzverif.And(e, in[i][k] == "")
		}
		emptyKey = zzverif.Or(emptyKey, e)
	}
	zzverif.Region("row-with-empty-key", emptyKey)
	zzverif.Region("no-primary-key", len(zzPKs[c.pk]) == 0)
	zzverif.Region("composite-key", len(zzPKs[c.pk]) > 1)
	beforeKey := false
	for _, k := range kc {
		if c.removed >= 0 && c.removed < k {
			beforeKey = true
		}
	}
	zzverif.Region("removed-column-before-a-key-column", beforeKey)
}

func Harness_C19_blocks() {
	c := zzParams()
	zzverif.IsolateTemp()
	in := zzInput(c)
	zzRegions(c, in)
	runSize := zzverif.Uint64("runSize")
	zzverif.Assume(runSize >= 1)
	s := zzNewSorter(c, runSize)
	for _, r := range in {
		if err := s.AddRow(r); err != nil {
			panic(err)
		}
	}
	zzverif.Observe("chunks", len(s.chunks))
	out := zzBlocks(s, c)
	zzCheck("blocks-", c, in, out)
	zzverif.Assert("close-no-error", s.Close() == nil)
	zzverif.Assert("spill-files-deleted-on-close", zzverif.TempFilesLeft() == 0)
	zzverif.Reach("end")
}

func Harness_C19_rows() {
	c := zzParams()
	zzverif.IsolateTemp()
	in := zzInput(c)
	zzRegions(c, in)
	runSize := zzverif.Uint64("runSize")
	zzverif.Assume(runSize >= 1)
	s := zzNewSorter(c, runSize)
	for _, r := range in {
		if err := s.AddRow(r); err != nil {
			panic(err)
		}
	}
	out := zzRowsOut(s, c)
	zzCheck("rows-", c, in, out)
	zzverif.Assert("close-no-error", s.Close() == nil)
	zzverif.Assert("spill-files-deleted-on-close", zzverif.TempFilesLeft() == 0)
	zzverif.Reach("end")
}

// Both outputs of two sorters fed the same rows contain the same rows.
func Harness_C19_both() {
	c := zzParams()
	in := zzInput(c)
	zzRegions(c, in)
	runSize := zzverif.Uint64("runSize")
	zzverif.Assume(runSize >= 1)
	s1, s2 := zzNewSorter(c, runSize), zzNewSorter(c, runSize)
	for _, r := range in {
		s1.AddRow(r)
		s2.AddRow(r)
	}
	a := zzBlocks(s1, c)
	b := zzRowsOut(s2, c)
	zzverif.Assert("two-outputs-same-row-count", len(a) == len(b))
	if len(a) == len(b) {
		for i := range a {
			zzverif.Assert("two-outputs-same-rows-in-same-order", zzRowEq(a[i], b[i]))
		}
	}
	s1.Close()
	s2.Close()
	zzverif.Reach("end")
}
