//go:build verif

package slice

import (
	"bytes"
	"encoding/binary"
	"math/bits"
	"sort"
	"strconv"
	"strings"
	"sync"

	"github.com/wrgl/wrgl/pkg/zzverif"
)

// Engine self-test: Go language semantics that the interpreter must reproduce
// exactly. Every case reports values through Observe; the driver's differential
// validation runs the same code natively and compares the logs. (Written after an
// aliasing bug in append/copy of struct slices was found through a seeded change.)

type zzP struct {
	a  int
	s  string
	in [2]int
}

type zzI interface{ M() int }

func (p zzP) M() int   { return p.a }
func (p *zzP) Inc()    { p.a++ }
func zzNamed() (r int) { defer func() { r *= 2 }(); r = 21; return r }

func Harness_selftest_semantics() {
	x := 0
	if zzverif.Bool("x") {
		x = 1
	}
	obs := func(name string, v ...int) {
		w := make([]interface{}, len(v))
		for k, e := range v {
			w[k] = e
		}
		zzverif.Observe(name, w...)
	}

	// append / copy of structs: value semantics
	base := []zzP{{1, "a", [2]int{1, 2}}, {2, "b", [2]int{3, 4}}}
	c1 := append([]zzP{}, base...)
	c1[0].a = 10
	c1[0].in[1] = 99
	obs("append-struct", base[0].a, base[0].in[1], c1[0].a, c1[0].in[1])
	c2 := make([]zzP, 2)
	copy(c2, base)
	c2[1].s = "z"
	c2[1].in[0] = 77
	obs("copy-struct", len(base[1].s), base[1].in[0], c2[1].in[0])
	// arrays are values
	arr := [3]int{1, 2, 3}
	arr2 := arr
	arr2[0] = 9
	aa := [][2]int{{1, 2}}
	ab := append([][2]int{}, aa...)
	ab[0][0] = 5
	obs("array-value", arr[0], arr2[0], aa[0][0], ab[0][0])
	// struct assignment, pointer receiver, value receiver
	p := base[0]
	p.Inc()
	q := &base[1]
	q.Inc()
	obs("receivers", base[0].a, p.a, base[1].a, p.M())
	// map of structs: reads are copies, writes replace
	m := map[string]zzP{"k": {a: 1}}
	v := m["k"]
	v.a = 5
	obs("map-struct", m["k"].a, v.a)
	m["k"] = v
	obs("map-struct-2", m["k"].a, len(m))
	// slices share backing arrays; append within capacity aliases, beyond it does not
	s0 := make([]int, 2, 4)
	s1 := append(s0, 7)
	s2 := append(s0, 8)
	obs("append-alias", s1[2], s2[2], len(s0), cap(s1))
	s3 := append(s1, 1, 2, 3)
	s3[0] = 42
	obs("append-grow", s1[0], s3[0])
	t3 := []int{0, 1, 2, 3, 4}[1:3:4]
	obs("slice3", len(t3), cap(t3), t3[1])
	ov := []int{1, 2, 3, 4, 5}
	copy(ov[1:], ov)
	obs("copy-overlap", ov[0], ov[1], ov[2], ov[4])
	// range copies the element; closures capture variables
	sum := 0
	for _, e := range base {
		e.a = 100
		sum += e.a
	}
	fs := []func() int{}
	for i := 0; i < 3; i++ {
		fs = append(fs, func() int { return i })
	}
	obs("range-closure", base[0].a, sum, fs[0](), fs[2]())
	// defer order, named results, recover
	order := 0
	func() {
		defer func() { order = order*10 + 1 }()
		defer func() { order = order*10 + 2 }()
	}()
	rec := 0
	func() {
		defer func() {
			if r := recover(); r != nil {
				rec = 1
			}
		}()
		var z []int
		_ = z[x+3]
	}()
	obs("defer", order, zzNamed(), rec)
	// integer arithmetic wraps; shifts; signed division and remainder
	var u8 uint8 = 250
	u8 += uint8(10 + x)
	var i32 int32 = 1 << 30
	i32 *= 4
	var i8 int8 = -128
	i8--
	obs("wrap", int(u8), int(i32), int(i8), -7/2, -7%2, int(uint32(1)<<31>>31), int(int32(-8)>>1))
	// strings: indexing, ranging, comparison, conversion
	str := "héllo"
	n := 0
	for range str {
		n++
	}
	obs("strings", len(str), n, int(str[1]), strings.Compare("a", "b"), len([]rune(str)), len(string(rune(233))))
	// interfaces, type switches, comparisons of structs and arrays
	var it zzI = base[0]
	kind := 0
	switch tv := it.(type) {
	case *zzP:
		kind = 1
	case zzP:
		kind = 2 + tv.a - tv.a
	}
	e1, e2 := zzP{1, "a", [2]int{1, 2}}, zzP{1, "a", [2]int{1, 2}}
	eq := 0
	if e1 == e2 {
		eq = 1
	}
	e2.in[1] = 3
	if e1 == e2 {
		eq += 10
	}
	obs("iface-eq", kind, eq, it.M())
	// switch fallthrough, labelled break/continue
	ft := 0
	switch x {
	case 0:
		ft += 1
		fallthrough
	case 1:
		ft += 10
	default:
		ft += 100
	}
	cnt := 0
outer:
	for i := 0; i < 3; i++ {
		for j := 0; j < 3; j++ {
			if j == 2 {
				continue outer
			}
			if i == 2 {
				break outer
			}
			cnt++
		}
	}
	obs("control", ft, cnt)
	// sort (unstable above 12 elements: the exact permutation matters), sort.Stable, maps iteration count
	type kv struct{ k, v int }
	var kvs []kv
	for i := 0; i < 20; i++ {
		kvs = append(kvs, kv{(i * 7) % 5, i})
	}
	sort.Slice(kvs, func(a, b int) bool { return kvs[a].k < kvs[b].k })
	sig := 0
	for i, e := range kvs {
		sig = (sig*31 + e.v*(i+1)) % 1000003
	}
	sort.SliceStable(kvs, func(a, b int) bool { return kvs[a].k > kvs[b].k })
	obs("sort", sig, kvs[0].k, kvs[0].v, kvs[19].v)
	// channels carry copies
	ch := make(chan zzP, 1)
	w := zzP{a: 1}
	ch <- w
	w.a = 2
	g := <-ch
	obs("chan-copy", g.a, w.a)
	zzverif.Reach("end")
}

type zzNode struct {
	vals []int
	next *zzNode
	arr  [2][]int
}

func zzVariadic(pre int, xs ...int) int {
	s := pre
	for _, x := range xs {
		s += x
	}
	if len(xs) > 0 {
		xs[0] = -1
	}
	return s
}

func Harness_selftest_semantics2() {
	x := 0
	if zzverif.Bool("x") {
		x = 1
	}
	obs := func(name string, v ...int) {
		w := make([]interface{}, len(v))
		for k, e := range v {
			w[k] = e
		}
		zzverif.Observe(name, w...)
	}
	// struct copies share the slices and pointers inside them (shallow copy)
	n1 := zzNode{vals: []int{1, 2}, arr: [2][]int{{5}, {6}}}
	n2 := n1
	n2.vals[0] = 9
	n2.vals = append(n2.vals, 3)
	n2.arr[0][0] = 50
	n2.arr[1] = []int{60}
	n1.next = &n2
	n1.next.vals[1] = 8
	obs("shallow", n1.vals[0], len(n1.vals), n1.arr[0][0], n1.arr[1][0], n2.vals[1], n1.vals[1])
	// multiple assignment evaluates the right side first
	a := []int{1, 2, 3}
	i := 0
	i, a[i] = 2, 7
	a[0], a[2] = a[2], a[0]
	obs("multi-assign", i, a[0], a[1], a[2])
	// variadic shares the slice when passed with ...
	xs := []int{1, 2, 3}
	r1 := zzVariadic(10, xs...)
	r2 := zzVariadic(10, 1, 2)
	obs("variadic", r1, xs[0], r2)
	// method values bind the receiver at evaluation time
	pv := zzP{a: 1}
	f := pv.M
	pv.a = 5
	g := (&pv).Inc
	g()
	obs("method-value", f(), pv.a)
	// bytes <-> string conversions copy
	bs := []byte("abc")
	st := string(bs)
	bs[0] = 'z'
	bs2 := []byte(st)
	bs2[1] = 'y'
	obs("conv-copy", int(st[0]), int(st[1]), int(bs[0]), int(bs2[1]))
	// maps: nil map read, delete during iteration, len, map of slices aliasing
	var nm map[string]int
	ms := map[int][]int{1: {1}}
	sl := ms[1]
	sl[0] = 4
	mm := map[int]int{1: 1, 2: 2, 3: 3, 4: 4}
	seen := 0
	for k := range mm {
		delete(mm, k)
		seen++
	}
	obs("maps", nm["q"], len(nm), ms[1][0], len(mm), seen)
	// goroutines, WaitGroup, mutex, buffered and unbuffered channels, select default, close
	var wg sync.WaitGroup
	var mu sync.Mutex
	total := 0
	res := make(chan int, 3)
	for w := 0; w < 3; w++ {
		wg.Add(1)
		go func(w int) {
			defer wg.Done()
			mu.Lock()
			total += w + x
			mu.Unlock()
			res <- w * w
		}(w)
	}
	wg.Wait()
	close(res)
	sq := 0
	for v := range res {
		sq += v
	}
	un := make(chan int)
	done := make(chan struct{})
	go func() {
		v, ok := <-un
		_, ok2 := <-un
		if ok && !ok2 {
			total += v
		}
		close(done)
	}()
	un <- 100
	close(un)
	<-done
	sel := 0
	select {
	case v := <-res:
		sel = 1 + v
	default:
		sel = -1
	}
	obs("goroutines", total, sq, sel)
	// strconv / strings / bytes helpers that wrgl uses
	nn, err := strconv.ParseInt("-0042", 10, 64)
	_, err2 := strconv.ParseInt("12a", 10, 64)
	e := 0
	if err != nil {
		e = 1
	}
	if err2 != nil {
		e += 10
	}
	var bb bytes.Buffer
	bb.WriteString("ab")
	bb.WriteByte('c')
	bb.Write([]byte{1, 2})
	rd := make([]byte, 3)
	k, _ := bb.Read(rd)
	obs("stdlib", int(nn), e, bb.Len(), k, strings.Index("hello", "ll"), len(strings.Split("a,b,,c", ",")), bytes.Compare([]byte("a"), []byte("b")),
		bits.Len(255), bits.TrailingZeros32(8), int(binary.BigEndian.Uint16([]byte{1, 2})))
	zzverif.Reach("end")
}
