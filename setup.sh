#!/bin/bash
# Builds the gosym engine offline from /verif/engine (module cache only).
set -e
cd "$(dirname "$0")/engine"
export GOFLAGS=-mod=mod GOPROXY=off GOSUMDB=off GOTOOLCHAIN=local GOWORK=off
mkdir -p ../bin
go build -o ../bin/gosym ./cmd/gosym
