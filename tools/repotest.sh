#!/bin/bash
# runs wrgl's own tests without touching /repo/go.mod (scratch modfile); args = packages (default ./...)
set -e
D=$(mktemp -d)
cp /repo/go.mod /repo/go.sum $D/
cd /repo
export GOFLAGS=-mod=mod GOPROXY=off GOSUMDB=off GOTOOLCHAIN=local
go test -modfile=$D/go.mod -vet=off -count=1 -timeout 25m "${@:-./...}" 2>&1 | grep -v "no test files" | tail -60
rm -rf $D
