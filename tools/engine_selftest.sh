#!/bin/bash
# Engine self-test: Go language-semantics cases run by the interpreter and natively; logs must agree.
cd "$(dirname "$0")/.."
[ -x bin/gosym ] || ./setup.sh >&2
export GOFLAGS=-mod=mod GOPROXY=off GOSUMDB=off GOTOOLCHAIN=local GOWORK=off
D=$(mktemp -d)
./bin/gosym -repo "${VERIF_REPO:-/repo}" -spec harness/selftest/spec.json -tier quick -evidence "$D/ev.json" "$@"
rc=$?
python3 - "$D/ev.json" <<'PY'
import json,sys
e=json.load(open(sys.argv[1]))
print("selftest: traces validated against the native build:", e['coverage'].get('traces_validated_against_impl'))
PY
rm -rf "$D"
exit $rc
