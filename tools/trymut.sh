#!/bin/bash
# tools/trymut.sh <mutdir> <prop> [tier]  : confirm a seeded change in a scratch worktree, then run our check against it in /repo
# <mutdir> holds patch.diff, meta.json and the demo test
set -u
MUT="$1"; PROP="$2"; TIER="${3:-quick}"
export GOFLAGS=-mod=mod GOPROXY=off GOSUMDB=off GOTOOLCHAIN=local
W=/tmp/seedchk_$PROP
if [ "${PHASE:-all}" != "check" ]; then
git -C /repo worktree remove --force $W 2>/dev/null
git -C /repo worktree add --detach $W HEAD -q || exit 2
cd $W
DEMO=$(python3 -c "import json;m=json.load(open('$MUT/meta.json'));print(m.get('demo_file','').split('/')[-1])")
DDIR=$(python3 -c "import json;m=json.load(open('$MUT/meta.json'));print(m.get('demo_package_dir','').replace('/tmp/mut/$PROP/','').replace('/tmp/mut2/$PROP/',''))")
[ -f "$MUT/$DEMO" ] || DEMO=$(ls $MUT | grep _test.go | head -1)
echo "demo=$DEMO dir=$DDIR"
cp "$MUT/$DEMO" "$W/$DDIR/$DEMO"
echo "--- demo on original code (must pass)"
go test -vet=off -count=1 ./$DDIR/ 2>&1 | tail -3
if ! git apply "$MUT/patch.diff"; then echo "PATCH DOES NOT APPLY"; cd /; git -C /repo worktree remove --force $W; exit 2; fi
echo "--- build + full suite with the change (must pass, demo excluded)"
mv "$W/$DDIR/$DEMO" /tmp/$DEMO.$PROP
go build ./... 2>&1 | tail -3
go test -vet=off -count=1 ./... 2>&1 | grep -v "^ok\|no test files" | head -5
mv /tmp/$DEMO.$PROP "$W/$DDIR/$DEMO"
echo "--- demo with the change (must fail)"
go test -vet=off -count=1 ./$DDIR/ 2>&1 | tail -4
cd /; git -C /repo worktree remove --force $W
fi
[ "${PHASE:-all}" = "confirm" ] && exit 0
echo "--- our check against the change"
git -C /repo apply "$MUT/patch.diff" || { echo "cannot apply to /repo"; exit 2; }
# the evidence of a run against a patched tree must not replace the committed one
cd /verif && ./check $PROP --tier $TIER -evidence /tmp/trymut_evidence_$PROP.json > /tmp/trymut_$PROP.out 2> /tmp/trymut_$PROP.err; rc=$?
git -C /repo checkout -- .
echo "check rc=$rc"; grep "^VIOLATION\|^KNOWN" /tmp/trymut_$PROP.out | head -5; grep "^violation in" /tmp/trymut_$PROP.err | head -3 | cut -c1-300; tail -1 /tmp/trymut_$PROP.err | cut -c1-200
