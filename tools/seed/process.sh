#!/bin/bash
# tools/seed/process.sh <worktree-root> <keep-dir> <prop>... : for each finished seeded change:
# copy MUTATION out, remove the worktree, confirm it in a scratch worktree (4 in parallel),
# then apply it to /repo, run the property's quick check and restore /repo (sequentially).
ROOT="$1"; KEEP="$2"; shift 2
mkdir -p "$KEEP"
for p in "$@"; do
  [ -d "$ROOT/$p/MUTATION" ] || { echo "$p: no MUTATION dir"; continue; }
  rm -rf "$KEEP/$p"; cp -r "$ROOT/$p/MUTATION" "$KEEP/$p"
  git -C /repo worktree remove --force "$ROOT/$p" 2>/dev/null
done
git -C /repo worktree prune
cd /tmp
printf "%s\n" "$@" | xargs -P 4 -I{} bash -c "PHASE=confirm /verif/tools/trymut.sh $KEEP/{} {} > $KEEP/{}.confirm 2>&1"
for p in "$@"; do
  echo "=== $p confirm"; grep -v "^WARNING\|inserter.go\|index.go" "$KEEP/$p.confirm" | cut -c1-170 | tail -6
done
for p in "$@"; do
  echo "=== $p check"
  PHASE=check /verif/tools/trymut.sh "$KEEP/$p" "$p" 2>&1 | grep "check rc\|^VIOLATION\|quick:\|ENGINE\|^violation" | head -4 | cut -c1-230
  git -C /repo status --short | head -2
done
