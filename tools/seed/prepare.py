#!/usr/bin/env python3
"""tools/seed/prepare.py <round-dir> <prop>... : one scratch worktree of /repo per property under
<round-dir>/<prop> with PROPERTY.json, and the sub-agent prompt in <round-dir>/<prop>.prompt
(the prompt names earlier seeded changes for the property by description only)."""
import json, os, subprocess, sys, glob
root = sys.argv[1]
os.makedirs(root, exist_ok=True)
props = {json.loads(l)["id"]: json.loads(l) for l in open("/verif/properties.jsonl")}
tmpl = open("/verif/tools/seed/prompt_tmpl.txt").read()
for p in sys.argv[2:]:
    d = f"{root}/{p}"
    subprocess.run(["git", "-C", "/repo", "worktree", "remove", "--force", d], capture_output=True)
    subprocess.run(["git", "-C", "/repo", "worktree", "add", "--detach", d, "HEAD", "-q"], check=True)
    json.dump(props[p], open(f"{d}/PROPERTY.json", "w"), indent=1)
    prior = []
    for m in sorted(glob.glob(f"/verif/seeded/{p}-*/meta.json")):
        j = json.load(open(m))
        prior.append("  - " + (j.get("description") or "")[:260].replace("\n", " ") + " [" + ", ".join(j.get("files_changed") or []) + "]")
    open(f"{root}/{p}.prompt", "w").write(tmpl.replace("@DIR@", root).replace("@P@", p).replace("@PRIOR@", "\n".join(prior) or "  (none)"))
    print(p, "ready", len(prior), "prior")
