#!/usr/bin/env python3
"""tools/archive_seed.py <prop> <seed-id> <detected_by text> : copy a confirmed seeded change from /tmp/mut/<prop>/MUTATION into /verif/seeded/<seed-id>/"""
import json, os, shutil, sys, glob
prop, sid, detected = sys.argv[1], sys.argv[2], sys.argv[3]
src = f"/tmp/mut/{prop}/MUTATION" if len(sys.argv) < 5 else sys.argv[4]
dst = f"/verif/seeded/{sid}"
os.makedirs(dst, exist_ok=True)
shutil.copy(f"{src}/patch.diff", f"{dst}/patch.diff")
meta = json.load(open(f"{src}/meta.json"))
for f in glob.glob(f"{src}/*_test.go"):
    # stored with a .txt suffix so that it is not picked up as a Go package under /verif
    shutil.copy(f, f"{dst}/{os.path.basename(f)}.txt")
out = {
    "property": prop,
    "description": meta.get("description"),
    "what_it_needs_to_manifest": meta.get("what_it_needs_to_manifest"),
    "files_changed": meta.get("files_changed"),
    "demo_file": [os.path.basename(f) + ".txt" for f in glob.glob(f"{src}/*_test.go")],
    "demo_package_dir": (meta.get("demo_package_dir") or "").replace(f"/tmp/mut/{prop}/", ""),
    "author": "independent sub-agent given only the property text and a scratch worktree",
    "confirmed_by_me": "tools/trymut.sh: in a scratch worktree of /repo - demo passes on the original code; with patch.diff applied the project builds, the full existing test suite passes, and the demo fails",
    "detected_by": detected,
}
json.dump(out, open(f"{dst}/meta.json", "w"), indent=1)
print("archived", dst)
