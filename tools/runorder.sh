#!/bin/bash
# tools/runorder.sh <tier> <prop>... : like runall.sh, in the given order
cd "$(dirname "$0")/.."
TIER="$1"; shift
for p in "$@"; do
  s=$(date +%s)
  ./check $p --tier $TIER > /tmp/runall_$p.out 2> /tmp/runall_$p.err
  rc=$?
  e=$(date +%s)
  echo "$p rc=$rc $((e-s))s $(grep -c '^KNOWN-FINDING' /tmp/runall_$p.out) known $(grep -c '^VIOLATION' /tmp/runall_$p.out) violations | $(tail -1 /tmp/runall_$p.err | cut -c1-150)"
done
