#!/usr/bin/env python3
"""Renders known_findings.json as one line per entry (known_findings.txt)."""
import json, os
here = os.path.dirname(os.path.dirname(os.path.abspath(__file__)))
f = json.load(open(os.path.join(here, "known_findings.json")))
out = ["# generated from known_findings.json by tools/mkfindings_txt.py - the checks read the JSON file",
       "# open entries are printed as KNOWN-FINDING lines by the check and suppress exactly the (obligation, label, region) they name;",
       "# fixed entries suppress nothing"]
for e in f:
    where = "%s/%s" % (e["harness"], e.get("region") or "-")
    if e["status"] == "fixed":
        out.append("fixed: property=%s %s [%s] %s" % (e["property"], e.get("commit", ""), where, e["what"]))
    else:
        out.append("open: property=%s [%s label=%s] %s" % (e["property"], where, e["label"], e["what"]))
open(os.path.join(here, "known_findings.txt"), "w").write("\n".join(out) + "\n")
