#!/bin/bash
# runs every claimed check (quick tier by default) and prints exit code and wall time
cd "$(dirname "$0")/.."
TIER="${1:-quick}"
for p in $(python3 -c "import json;print(' '.join(c['property_id'] for c in json.load(open('MANIFEST.json'))['checks']))"); do
  s=$(date +%s)
  ./check $p --tier $TIER > /tmp/runall_$p.out 2> /tmp/runall_$p.err
  rc=$?
  e=$(date +%s)
  echo "$p rc=$rc $((e-s))s $(grep -c '^KNOWN-FINDING' /tmp/runall_$p.out) known $(grep -c '^VIOLATION' /tmp/runall_$p.out) violations | $(tail -1 /tmp/runall_$p.err | cut -c1-150)"
done
