#!/usr/bin/env python3
"""Generates /verif/MANIFEST.json from the table below (kept in one place so that
claims, levels and not-applicable reasons stay consistent)."""
import json, os

LEVEL_NOTE_COMMON = ("Trusted base: go/ssa (x/tools v0.29.0) as the front end; the gosym interpreter (fork of x/tools interp) and its intrinsics listed in DESIGN 2.6 "
    "(fmt, errors, sync, time.now, in-memory files; meow = native on concrete bytes / injective UF on symbolic bytes; s2 = native / tagged identity); z3 4.8.12 with cvc5 and z3 5.1 as fallback; "
    "every reported counterexample is first replayed natively with the same harness file; bounds are stated per obligation in the evidence. ")

CHECKS = {
 "C01": ("model_checking", "bounded symbolic execution of the real sorter and ingest pipeline (go/ssa) with symbolic cells, symbolic run size, UF hashes; SMT (z3) decides every path",
         "Kernels K2 (Sorter.AddRow/SortedBlocks) and K3 (Inserter worker pool -> SaveBlock/IndexBlockFromBytes/SaveTable/SaveTableIndex -> read back) executed symbolically; rows read back must be exactly one row per distinct key, cell-for-cell, in key order; includes the 255-row block boundary with fillers. Cells are 1-2 symbolic bytes, <= 3-4 rows (+254 fillers); CSV parsing, CLI, badger, delimiter, cells near 64 KiB (see C06) are outside.", "4 C01"),
 "C02": ("model_checking", "bounded symbolic execution of two ingests of the same symbolic row set; table identity decided by SMT through an injective hash UF",
         "Same symbolic rows ingested in two arrival orders, with two independent symbolic run sizes and 1 vs 2 workers, must give byte-identical table objects and identifiers; a one-cell change must give a different identifier. <= 2-3 rows; delimiter/store/machine differences and the CLI's unchanged-file detection are outside.", "4 C02"),
 "C03": ("model_checking", "bounded symbolic execution of the ingest pipeline followed by structural invariants over the stored table, SMT-decided",
         "For tables produced by the real ingest pipeline (symbolic cells, incl. the 255/256/257-row boundary): row count, block fill, strictly increasing keys, block index maps hash(key)->(hash(row),position) and nothing else, index-from-bytes == index-from-rows, table index = first key per block. The merge-commit path: the table committed by the real runMerge (cmd/wrgl) satisfies the same invariants and Doctor.Diagnose over all refs reports nothing. Receiver-produced tables are compared byte-for-byte with ingest-produced ones under C07; the repository's own diagnosis (diagnoseCommit) is run on ingest output. doctor re-ingest (Resolve) is outside.", "4 C03"),
 "C04": ("model_checking", "bounded symbolic execution of diff.DiffTables on two symbolic tables vs a set-difference oracle; offset arithmetic for all 2^24 x 255 offsets by SMT",
         "Real DiffTables (differ goroutine, window search, block-index lookup) on synthetic small-block tables with symbolic 1-byte keys (strictly increasing per table) and symbolic row sums, 0-2 (quick) / 0-3 (thorough) blocks per side: events = exactly added/removed/modified, no key twice, offsets address the right rows; RowToBlockAndOffset inverse for every offset. CLI rendering is outside.", "4 C04"),
 "C05": ("model_checking", "bounded symbolic execution of CompareColumns + RowResolver.Resolve on symbolic cells over concrete column layouts, and of the whole Merger/RowCollector pipeline on symbolic non-key cells; oracle = cell-wise three-way rule by column name",
         "Resolver kernel: 2-3 layers, layouts {same, +col, -col, reordered, renamed, key not first}, every presence pattern, 1-byte symbolic cells: one distinct change wins, none -> base, different changes / remove-vs-modify -> flagged, never a silent pick. Pipeline: base of 2-3 rows and 2 branches with disjoint edits / one-sided removals / an added row, key column first or not: result = base with each branch's edits under its own column names (hashes in ids mode). Command layer: the real runMerge (cmd/wrgl) end to end on base + 2 branch commits where each branch removes columns of its own and edits its own rows: committed result = the columns nobody removed and the base rows with each branch's edits, in either listing order. Interactive conflict resolver, --no-gui/--no-commit output and fast-forward paths are outside.", "4 C05"),
 "C06": ("model_checking", "bounded symbolic execution of encoders/decoders; the packfile length header for all 2^64 lengths via a measured float mini-domain + SMT",
         "Packfile type+length header round-trips for every object length u in [1,2^64) and type 1..3 (u=0 is a known finding). Other codecs: see obligations in the evidence; lengths beyond the stated bounds (64 KiB cells) are only covered where the obligation says so.", "4 C06"),
 "C07": ("model_checking", "bounded symbolic execution of ObjectSender -> packfile -> ObjectReceiver with the packfile size limit as one 64-bit SMT variable",
         "Three repository scenarios (chain, 255/256-row tables sharing a block, fork+merge with a re-used table) x destination pre-populated (nothing / first block / first commit) x EVERY maxPackfileSize: byte-identical commits/tables/blocks, block indices, table index and profile rebuilt identically to ingest's, receive order (blocks < table < commit, parents first), done <=> nothing left, a commit with a missing parent is refused. HTTP/gzip are outside.", "4 C07"),
 "C08": ("model_checking", "bounded symbolic execution of ClosedSetsFinder (Process/CommitsToSend/TablesToSend over the real CommitsQueue) on all DAGs up to n commits with symbolic timestamps and symbolic ref/want/have sets",
         "All DAG shapes with n <= 3 (quick) / 4 (thorough) commits, refs/wants/haves as symbolic subsets (incl. an unknown have), 1-2 rounds, depth 0..2: sent + ancestors(acks) cover every ancestor of every want; parents common or earlier; nothing unreachable from the wants; tables exactly for sent commits within depth; unreachable wants refused; step budget as termination bound. The wants set's Go map order is a choice point in a second obligation (n <= 2 quick / 3 thorough). Plus a concrete 10/14-commit ladder history for the polynomial-size claim on the wants side (a single evaluation, known finding) and on the haves side (object reads <= 4 n^2, have list symbolic).", "4 C08"),
 "C10": ("model_checking", "bounded symbolic execution of the fetch gate (saveFetchedRefs), the client-side push gate (identifyUpdates) and the merge command (runMerge, fast-forward paths) over symbolic histories, ref kinds, old/new values and force flags",
         "n <= 2 (quick) / 3 (thorough) commits with symbolic timestamps; 1-2 refs of kind heads/tags/remotes/custom: without force a ref only moves to a descendant, an existing tag is never overwritten, rejected updates leave the ref untouched and do not affect the other ref, rejections are reported, every applied update is logged once with true old/new. Merge: the real runMerge for `wrgl merge main other` on every DAG of n <= 3 (quick) / 4 (thorough) commits with --ff/--ff-only/--no-ff: the branch only moves to a descendant of its old value, a fast-forward moves it exactly to the other commit, --ff-only rejects diverged branches and leaves the ref alone, movements are logged with true values, other refs untouched. pull and remote-side enforcement are outside.", "4 C10"),
 "C11": ("model_checking", "bounded symbolic execution of IsAncestorOf / CommitsQueue / SeekCommonAncestor over all DAGs up to n commits with 64-bit symbolic timestamps",
         "All DAG shapes with n <= 3 (quick) / 4 (thorough) commits, timestamps as solver variables (equal, reversed, skewed): ancestor <=> reachable; walk visits each ancestor once; merge base is a common ancestor, is the input that is an ancestor of the others, found iff one exists. GetCommit replaced by a table lookup under gosym (real GetCommit in the native replay).", "4 C11"),
 "C12": ("model_checking", "bounded exhaustive exploration of repository shapes through symbolic execution of the real prune.Prune",
         "Repositories of <= 2 (quick) / 3 (thorough) commits over 3 real tables, refs of every kind present/deleted, shallow commits with the absent table sum placed before/after/between the stored keys; reachable commits/tables/indices/blocks survive intact, unreachable commits and their exclusive tables/blocks are gone, prune twice = once, no crash. Mostly exhaustive shape enumeration (stated in evidence).", "4 C12"),
 "C13": ("fault_enumeration", "symbolic execution of commit (ingest+SaveCommit+CommitHead), merge (the real runMerge of cmd/wrgl), receive (+ref update) and prune over in-memory stores with the failing write index and fault kind as SMT variables; invariants checked after 'reopen', then re-run",
         "Every prefix of the store-write sequence of commit (1-2 workers, 1-2 blocks), a conflict-free `wrgl merge` (incl. the profile write), packfile receive (one or many packfiles) and prune, as process death (no later write takes effect) or a single write error: refs resolve to readable commits, commits have parents, a branch never points at a commit lacking its table, every present table has blocks, block indices and table index; re-running succeeds and ends with the same refs/tables/history as an uninterrupted run. Stores with atomic calls stand in for badger/SQLite; pull, the rest of the cobra layer and real process kills are outside.", "4 C13"),
 "C14": ("fault_enumeration", "symbolic execution of transaction.Commit/Discard with the failing store-write index and fault kind as SMT variables and the branch visiting order as a choice point",
         "1-2 (quick) / 1-3 (thorough) staged branches (new/existing), fault at every store write (crash or error), then re-run: all-or-nothing, no duplicate commit, one log entry with true old/new per branch; commit/discard after commit are refused and change nothing. In-memory stores with atomic calls stand in for SQLite/badger.", "4 C14"),
 "C15": ("model_checking", "symbolic execution of refsql.filterQuery on a symbolic prefix and ref name; its WHERE clause is evaluated by the documented SQLite operator contract and compared with literal prefix matching by SMT; counterexamples confirmed against real SQLite",
         "ONLY the literal-prefix sub-claim of C15: for every prefix of 1-2 (quick) / 1-3 (thorough) and name of 1-3 / 1-4 printable ASCII characters, listing by prefix selects exactly the names that literally start with it (case-sensitively, no wildcard meaning). Operation sequences, log ordinals, rename/copy carrying logs are SQL executed inside SQLite (cgo) and os calls in the file store: not decided by this technique (DESIGN section 5).", "4 C15"),
 "C16": ("model_checking", "predictive race analysis: one integer order variable per recorded event (reads/writes of shared cells, channel, WaitGroup, Mutex, go), happens-before constraints, adjacency queries decided by z3 (QF_IDL); plus bounded exploration of cooperative schedules; races confirmed natively under the Go race detector",
         "Ingest worker pool with 2 real workers over 2-3 blocks and the 3-way merge pipeline (differ, merger, collector, sorter goroutines): no pair of conflicting accesses can be adjacent in any order consistent with the recorded synchronisation; result equals the sequential one under every explored schedule (resumption order at blocking points and at locks of the code under test, capped); an injected store error in a worker reaches the caller. Bounded by one recorded skeleton per configuration (no read-from constraints, first/last access per cell and goroutine); GOMAXPROCS, >2 workers, races inside badger are outside.", "4 C16"),
 "C17": ("model_checking", "bounded symbolic execution of each decoder entry point over a fully symbolic N-byte buffer; panics, step budget and attacker-controlled allocation sizes decided by SMT",
         "ValidateBlockBytes, ValidateStrListBytes, StrListDecoder.Read/ReadBytes, ReadBlockFrom, ReadBlockIndex, UintListDecoder.Read, PackfileReader, ReadPktLine on ALL byte strings of length N <= 8..14 (quick) / 12..40 (thorough): outcome must be value-or-error, steps bounded, no single allocation > 1 MiB. Values >= 24 at sites needing a concrete size are explored through boundary representatives only (stated as a cut).", "4 C17"),
 "C18": ("model_checking", "bounded symbolic execution of the stream decoders over a reader whose per-call read sizes and data+EOF delivery are choice points",
         "Packfile (2 objects) and pkt-lines: every chunking; commit/table/block/block index/uint list/string list: every placement of <= 1-3 short reads plus data+EOF; result must equal decoding from bytes.Reader.", "4 C18"),
 "C09": ("model_checking", "bounded symbolic execution of the real client sessions - UploadPackSession (fetch) and ReceivePackSession (push): state machines, negotiation, table ACKs, ObjectSender/ObjectReceiver, gzip, packfile splitting - against harness-built reference servers made of the repository's own ClosedSetsFinder, ObjectSender and ObjectReceiver, on all small DAG shapes x states of the other side; SMT decides each path",
         "Session level. FETCH: for every DAG of n <= 2-3 (quick) / 3-4 (thorough) commits, 1-2 server tips, every ancestor-closed set of commits the client already has, 1-2 haves per round trip, depth 0-2 and a symbolic packfile size limit (the transfer splits into several packfiles - witnessed), after the session the client holds every commit reachable from the fetched tips, byte-identical, with tables, blocks, block indices and table indices for the commits within depth, nothing it had is changed, the session terminates, and a repeated fetch wants nothing. PUSH: the same histories with 1-2 pushed refs, every ancestor-closed set of commits the remote already has (its refs are the haves), optionally a stray table on the remote and commits sharing a table: after the session the remote refs point at the pushed commits, all their ancestors, tables, blocks and indices are there and identical, nothing unreachable was transferred, nothing the remote had changed, and a repeated push transfers no packfile and changes nothing. Go map iteration order inside the negotiator is a choice point in a second fetch obligation. The real HTTP server (wrgld, not in this repository), pull, the ref updates after a fetch (gated under C10) and the CLI are outside; HTTP and JSON are exercised only by the native replay (httptest).", "8 C09"),
 "C19": ("model_checking", "bounded symbolic execution of the real Sorter with symbolic cells and the run size as one 64-bit SMT variable (all spill patterns), in-memory spill files",
         "Rows <= 3 (quick) / 4 (thorough), 2-3 columns, keys [0]/[1]/[0,1]/[1,0]/none, removed column before/after the key: both outputs hold one row per distinct key in strictly ascending key order, equal to an input row without the removed columns; two outputs agree; spill files deleted on Close.", "4 C19"),
 "C20": ("model_checking", "bounded symbolic execution of index.HashSet operation sequences with symbolic second hash bytes",
         "Sequences of <= 3 (quick) / 4 (thorough) Add/Flush/Has/reopen operations, batch size 1..3, first byte from {00,01,ff}(+{7f,fe}), second byte symbolic: membership exact for any probe, stored entries sorted, fan-out consistent, same after reopen. File = misc.Buffer.", "4 C20"),
}

NOT_APPLICABLE = {
}

def main():
    here = os.path.dirname(os.path.dirname(os.path.abspath(__file__)))
    checks = []
    for pid in sorted(CHECKS):
        cat, tech, text, ref = CHECKS[pid]
        checks.append({
            "property_id": pid,
            "quick_cmd": "./check %s --tier quick" % pid,
            "thorough_cmd": "./check %s --tier thorough" % pid,
            "evidence_file": "/verif/evidence/%s.json" % pid,
            "replay_cmd_template": "./check %s --replay {path}" % pid,
            "engine": "gosym",
            "level_claimed": {"category": cat, "text": text, "design_ref": "DESIGN.md section " + ref},
            "level_note": LEVEL_NOTE_COMMON,
            "technique": tech,
        })
    m = {
        "version": 1,
        "setup_cmd": "./setup.sh",
        "hooks": {"guard": "verif", "enable": "harness files carry //go:build verif and are injected with go/packages Overlay and go test -overlay (-tags verif); nothing is written into /repo",
                  "baseline_off_cmd": "cd /repo && go test -mod=mod -vet=off -count=1 -timeout 25m ./...", "source_commits": [], "add_only": True},
        "engines": [{"name": "gosym", "path": "/verif/engine", "serves_properties": sorted(CHECKS),
                     "kind_free_text": "symbolic go/ssa interpreter (fork of x/tools go/ssa/interp) + z3/cvc5; forking by re-execution over 16 workers; native replay of counterexamples"}],
        "checks": checks,
        "not_applicable": [{"property_id": k, "reason": v} for k, v in sorted(NOT_APPLICABLE.items())],
        "notes": "Every check rebuilds its SSA from /repo's working tree on every run. Known findings (genuine defects recorded, not repaired) are in /verif/known_findings.json; see DESIGN.md section 7.",
    }
    with open(os.path.join(here, "MANIFEST.json"), "w") as f:
        json.dump(m, f, indent=1)
        f.write("\n")

if __name__ == "__main__":
    main()
