// Package zzverif is the harness runtime. This file is the NATIVE implementation
// (used when a harness is replayed with the real compiler); under the gosym
// symbolic executor every exported function below is intercepted by an intrinsic
// of the same name, so these bodies are never interpreted there.
//
// It is injected into the build as an overlay (pkg/zzverif/zzverif.go); nothing
// is written into the repository.
package zzverif

import (
	"encoding/json"
	"fmt"
	"os"
	"runtime"
	"sort"
	"strings"
	"sync"
)

type vectorFile struct {
	Harness string            `json:"harness"`
	Params  map[string]int    `json:"params"`
	Vector  map[string]uint64 `json:"vector"`
}

var (
	mu      sync.Mutex
	vf      vectorFile
	counter = map[string]int{}
	failed  []string
	out     = os.Stdout
)

func next(name string) uint64 {
	mu.Lock()
	defer mu.Unlock()
	k := counter[name]
	counter[name] = k + 1
	return vf.Vector[fmt.Sprintf("%s#%d", name, k)]
}

func Bool(name string) bool     { return next(name)&1 == 1 }
func Byte(name string) byte     { return byte(next(name)) }
func Uint16(name string) uint16 { return uint16(next(name)) }
func Uint32(name string) uint32 { return uint32(next(name)) }
func Uint64(name string) uint64 { return next(name) }
func Int64(name string) int64   { return int64(next(name)) }

type assumeFailed struct{}

func Int(name string, lo, hi int) int {
	v := int(int64(next(name)))
	if v < lo || v > hi {
		panic(assumeFailed{})
	}
	return v
}

func Choose(name string, n int) int {
	v := int(int64(next(name)))
	if v < 0 || v >= n {
		panic(assumeFailed{})
	}
	return v
}

func Concrete(x int) int { return x }

func Bytes(name string, n int) []byte {
	b := make([]byte, n)
	for i := range b {
		b[i] = byte(next(fmt.Sprintf("%s[%d]", name, i)))
	}
	return b
}

func String(name string, n int) string { return string(Bytes(name, n)) }

// SymLenString: natively the vector carries the length under "<name>.len#k" and
// the content bytes under "<name>.c[i]#0" for the indices the solver cared about;
// all other bytes are 'a'.
func SymLenString(name string, max int) string {
	mu.Lock()
	k := counter[name+".len"]
	mu.Unlock()
	n := int(next(name + ".len"))
	b := make([]byte, n)
	for i := range b {
		b[i] = 'a'
	}
	pref := fmt.Sprintf("%s.c%d[", name, k)
	for key, v := range vf.Vector {
		if strings.HasPrefix(key, pref) {
			var idx int
			fmt.Sscanf(key[len(pref):], "%d]", &idx)
			if idx >= 0 && idx < n {
				b[idx] = byte(v)
			}
		}
	}
	return string(b)
}

func Param(name string, def int) int {
	if v, ok := vf.Params[name]; ok {
		return v
	}
	return def
}

func Assume(c bool) {
	if !c {
		panic(assumeFailed{})
	}
}

func Assert(label string, c bool) {
	if !c {
		mu.Lock()
		failed = append(failed, label)
		mu.Unlock()
		fmt.Fprintf(out, "ZZVERIF FAIL %s\n", label)
	}
}

func AssertBytesEq(label string, a, b string) { Assert(label, a == b) }

func Region(name string, c bool) { fmt.Fprintf(out, "ZZVERIF REGION %s %v\n", name, c) }
func Reach(label string)         { fmt.Fprintf(out, "ZZVERIF REACH %s\n", label) }

func Observe(label string, vs ...interface{}) {
	var sb strings.Builder
	sb.WriteString(label)
	for _, v := range vs {
		sb.WriteString(" ")
		sb.WriteString(render(v))
	}
	fmt.Fprintf(out, "ZZVERIF OBS %s\n", sb.String())
}

func render(v interface{}) string {
	switch x := v.(type) {
	case nil:
		return "<nil>"
	case error:
		return fmt.Sprintf("err(%s)", x.Error())
	case string:
		return fmt.Sprintf("%q", x)
	case []byte:
		return fmt.Sprintf("%x", x)
	case []string:
		var sb strings.Builder
		sb.WriteString("[")
		for i, e := range x {
			if i > 0 {
				sb.WriteString(" ")
			}
			sb.WriteString(fmt.Sprintf("%q", e))
		}
		sb.WriteString("]")
		return sb.String()
	case []int:
		var sb strings.Builder
		sb.WriteString("[")
		for i, e := range x {
			if i > 0 {
				sb.WriteString(" ")
			}
			sb.WriteString(fmt.Sprint(e))
		}
		sb.WriteString("]")
		return sb.String()
	}
	return fmt.Sprint(v)
}

func B2I(c bool) int {
	if c {
		return 1
	}
	return 0
}

func Ite(c bool, a, b int) int {
	if c {
		return a
	}
	return b
}

func And(a, b bool) bool { return a && b }
func Or(a, b bool) bool  { return a || b }
func Symbolic() bool     { return false }

// UnderGosym reports whether the harness runs inside the symbolic executor
// (true there, in both symbolic and concrete-vector mode; false natively).
func UnderGosym() bool { return false }
func SegMode(on bool)    {}

// Try runs f and reports whether it panicked (an Assume failure passes through).
func Try(f func()) (panicked bool) {
	defer func() {
		if r := recover(); r != nil {
			if _, ok := r.(assumeFailed); ok {
				panic(r)
			}
			panicked = true
		}
	}()
	f()
	return false
}

// TryMsg is Try returning the panic message ("" = no panic).
func TryMsg(f func()) (msg string) {
	defer func() {
		if r := recover(); r != nil {
			if _, ok := r.(assumeFailed); ok {
				panic(r)
			}
			if e, ok := r.(error); ok {
				msg = "panic: " + e.Error()
			} else {
				msg = fmt.Sprintf("panic: %v", r)
			}
		}
	}()
	f()
	return ""
}

// RunNative is called by the generated replay test.
func RunNative(harnesses map[string]func()) (exit int) {
	path := os.Getenv("VERIF_VECTOR")
	if path == "" {
		fmt.Fprintln(out, "ZZVERIF SKIP no vector")
		return 0
	}
	data, err := os.ReadFile(path)
	if err != nil {
		fmt.Fprintln(out, "ZZVERIF ERROR", err)
		return 3
	}
	if err := json.Unmarshal(data, &vf); err != nil {
		fmt.Fprintln(out, "ZZVERIF ERROR", err)
		return 3
	}
	h, ok := harnesses[vf.Harness]
	if !ok {
		var names []string
		for n := range harnesses {
			names = append(names, n)
		}
		sort.Strings(names)
		fmt.Fprintln(out, "ZZVERIF ERROR unknown harness", vf.Harness, names)
		return 3
	}
	var m0, m1 runtime.MemStats
	runtime.ReadMemStats(&m0)
	func() {
		defer func() {
			if r := recover(); r != nil {
				if _, ok := r.(assumeFailed); ok {
					fmt.Fprintln(out, "ZZVERIF ASSUMEFAIL")
					return
				}
				msg := fmt.Sprint(r)
				if e, ok := r.(error); ok {
					msg = e.Error()
				}
				fmt.Fprintf(out, "ZZVERIF PANIC %s\n", strings.ReplaceAll(msg, "\n", " "))
				exit = 1
			}
		}()
		h()
	}()
	runtime.ReadMemStats(&m1)
	fmt.Fprintf(out, "ZZVERIF ALLOC %d\n", m1.TotalAlloc-m0.TotalAlloc)
	if len(failed) > 0 {
		exit = 1
	}
	fmt.Fprintln(out, "ZZVERIF DONE")
	return exit
}

var tempDir string

// IsolateTemp directs testutils.TempFile (RUNNER_TEMP) to a fresh directory so
// that TempFilesLeft can count what an operation leaves behind.
func IsolateTemp() {
	d, err := os.MkdirTemp("", "zzverif-tmp-")
	if err != nil {
		panic(err)
	}
	tempDir = d
	os.Setenv("RUNNER_TEMP", d)
}

// TempFilesLeft returns the number of files left in the isolated temp directory.
func TempFilesLeft() int {
	if tempDir == "" {
		return 0
	}
	es, _ := os.ReadDir(tempDir)
	return len(es)
}
